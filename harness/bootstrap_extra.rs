// C14 runner (appended to parsers.rs of the generated crate by lib/props/c14.py): grammar 0 of this
// crate is derived at check time from /repo/meta/src/grammar.pest.
use std::io::Write as _;

fn norm(mut o: serde_json::Value) -> serde_json::Value {
    if let Some(m) = o.as_object_mut() {
        m.remove("calls");
        m.remove("limit_reached");
        m.remove("sorted");
        for k in ["positives", "negatives"] {
            if let Some(serde_json::Value::Array(a)) = m.get_mut(k) {
                a.sort_by(|x, y| x.as_str().cmp(&y.as_str()));
            }
        }
    }
    o
}

pub fn extra(args: &[String]) {
    use serde_json::json;
    use vh::peg::*;
    use vh::util::*;
    silence_panics();
    let texts = arg(args, "--texts").expect("--texts");
    let out = arg(args, "--out").expect("--out");
    let gout = arg(args, "--grammar-out").expect("--grammar-out");
    let doc_every = arg_u64(args, "--doc-every", 20);
    pest::set_call_limit(None);
    let (ast, opt) = front_end(GRAMMAR).expect("grammar.pest must pass its own front-end");
    {
        let mut g = writer(&gout);
        wl(&mut g, &rules_json(&ast));
        g.flush().unwrap();
    }
    let vm = pest_vm::Vm::new(opt);
    let rules: Vec<String> = ast.iter().map(|r| r.name.clone()).collect();
    // sub-rules that are interesting entry points (all of them are used; these get every position)
    let focus = ["grammar_rules", "grammar_rule", "expression", "term", "string", "insensitive_string", "character", "range", "peek_slice",
                 "integer", "number", "identifier", "_push", "repeat_exact", "repeat_min", "repeat_max", "repeat_min_max", "COMMENT",
                 "WHITESPACE", "inner_str", "inner_chr", "escape", "unicode", "code", "tag_id", "line_doc", "grammar_doc", "block_comment",
                 "line_comment", "inner_doc", "newline", "space", "modifier", "prefix_operator", "postfix_operator", "infix_operator"];
    pest::set_call_limit(std::num::NonZeroUsize::new(200_000));
    let mut w = writer(&out);
    let (mut id, mut n, mut ndoc) = (0u64, 0u64, 0u64);
    let mut batch: Vec<serde_json::Value> = vec![];
    for line in read_lines(&texts) {
        let rec: serde_json::Value = serde_json::from_str(&line).unwrap();
        let text = from_cps(&rec["text"]);
        // texts marked long (deep for the parser of grammar files) are fed whole to the focus rules only
        let long = rec["long"] == true;
        if text.chars().count() > 160 && !long {
            continue;
        }
        // positions: start of the text and of up to 5 blank-separated chunks
        let mut starts: Vec<usize> = vec![0];
        let mut prev_ws = true;
        for (i, ch) in text.char_indices() {
            let ws = ch == ' ' || ch == '\n';
            if prev_ws && !ws && i > 0 && starts.len() < 6 && !long {
                starts.push(i);
            }
            prev_ws = ws;
        }
        for (si, st) in starts.iter().enumerate() {
            let t = &text[*st..];
            for r in &rules {
                let is_focus = focus.contains(&r.as_str());
                if !(is_focus || (si == 0 && !long && (n + r.len() as u64) % 3 == 0)) {
                    continue;
                }
                if si > 0 && r == "grammar_rules" {
                    continue;
                }
                let o1 = norm(run_gen::<pest_meta::parser::PestParser, pest_meta::parser::Rule>(pest_meta::parser::Rule::all_rules(), r, t));
                let o2 = norm(run_vm(&vm, r, t));
                let o3 = norm(run(0, r, t));
                n += 1;
                let doc = n % doc_every == 0 && t.chars().count() <= 60;
                ndoc += doc as u64;
                batch.push(json!({"start": r, "inp": cps(t), "checked_in": o1, "vm": o2, "fresh": o3, "doc": doc}));
                if batch.len() >= 40 {
                    id += 1;
                    wl(&mut w, &json!({"id": id, "cases": batch}));
                    batch = vec![];
                }
            }
        }
    }
    if !batch.is_empty() {
        id += 1;
        wl(&mut w, &json!({"id": id, "cases": batch}));
    }
    w.flush().unwrap();
    println!("{}", json!({"cases": n, "records": id, "cases_with_semantics": ndoc, "rules": rules.len()}));
}
