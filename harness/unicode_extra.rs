// C16 runner (appended to parsers.rs of the generated crate by lib/props/c16.py; FUNCS and NAMES are
// generated from the names pest advertises at check time).
use std::io::Write as _;

fn scalar_values() -> impl Iterator<Item = u32> {
    (0u32..0xD800).chain(0xE000u32..0x110000)
}

/// membership of c by the four access paths; 1 bit per name is too wide, so a Vec<u16> of indices
fn members_fn(c: char) -> Vec<u16> {
    FUNCS.iter().enumerate().filter(|(_, (_, f))| f(c)).map(|(i, _)| i as u16).collect()
}

pub fn extra(args: &[String]) {
    use serde_json::json;
    use vh::util::*;
    silence_panics();
    let out = arg(args, "--out").expect("--out");
    let exhaustive = arg_or(args, "--exhaustive", "no") == "yes";
    let seed = arg_u64(args, "--seed", 1);
    let mut w = writer(&out);
    let n = NAMES.len();
    // path 2: by_name
    let byname: Vec<Option<Box<dyn Fn(char) -> bool>>> = NAMES.iter().map(|nm| pest::unicode::by_name(nm)).collect();
    let resolves: Vec<bool> = byname.iter().map(|b| b.is_some()).collect();
    // validator: a one-rule grammar per name
    let accepted: Vec<bool> = NAMES.iter().map(|nm| matches!(guarded(|| vh::peg::front_end(&format!("r = {{ {nm} }}\n"))), Ok(Ok(_)))).collect();
    // path 3: one VM over a grammar with one rule per name (the same text the derived parser g0 was compiled from)
    let vm = match guarded(|| vh::peg::front_end(GRAMMAR)) {
        Ok(Ok((_, opt))) => Some(pest_vm::Vm::new(opt)),
        _ => None,
    };
    let rule_names: Vec<String> = (0..n).map(|i| format!("p{i}")).collect();
    // path 6: two properties in ONE expression - every grouped category in a choice with every name, in both orders -
    // through the real front-end (optimizer included): `G | P` matches c iff G(c) or P(c)
    let groups: Vec<usize> = ["LETTER", "CASED_LETTER", "MARK", "NUMBER", "PUNCTUATION", "SYMBOL", "SEPARATOR", "OTHER"]
        .iter().filter_map(|g| NAMES.iter().position(|n| n == g)).collect();
    let mut ug = String::new();
    for (gi, g) in groups.iter().enumerate() {
        for i in 0..n {
            ug.push_str(&format!("u{gi}_{i} = {{ {} | {} }}\nv{gi}_{i} = {{ {} | {} }}\n", NAMES[*g], NAMES[i], NAMES[i], NAMES[*g]));
        }
    }
    let uvm = match guarded(|| vh::peg::front_end(&ug)) {
        Ok(Ok((_, opt))) => Some(pest_vm::Vm::new(opt)),
        _ => None,
    };
    let mut checked6 = 0u64;
    let mut runs = 0u64;
    let mut disagreements: Vec<serde_json::Value> = vec![];
    let mut ndis = 0u64;
    let (mut checked23, mut checked4) = (0u64, 0u64);
    let mut cur: Option<(u32, u32, Vec<u16>)> = None;
    let mut rng = seed.wrapping_mul(0x9E3779B97F4A7C15) | 1;
    let mut prev_members: Vec<u16> = vec![];
    let mut pending_boundary = false;
    for cp in scalar_values() {
        let c = char::from_u32(cp).unwrap();
        let m = members_fn(c);
        // path 2 on every scalar value
        for (i, b) in byname.iter().enumerate() {
            if let Some(b) = b {
                let got = b(c);
                checked23 += 1;
                if got != m.contains(&(i as u16)) {
                    ndis += 1;
                    if disagreements.len() < 50 {
                        disagreements.push(json!({"cp": cp, "name": NAMES[i], "function": !got, "by_name": got}));
                    }
                }
            }
        }
        // paths 3 and 4: at run boundaries (+-1) and a seeded sample, or everywhere
        rng ^= rng << 13;
        rng ^= rng >> 7;
        rng ^= rng << 17;
        let boundary = m != prev_members || cp == 0 || cp == 0xE000;
        // (path 6 keeps to the sampled characters and names in the exhaustive tier too)
        let light = boundary || pending_boundary || rng % 257 == 0 || cp == 0xD7FF || cp == 0x10FFFF;
        let sample = exhaustive || light;
        pending_boundary = boundary;
        if sample {
            let mut buf = [0u8; 4];
            let s: &str = c.encode_utf8(&mut buf);
            for i in 0..n {
                // only names that can matter: members, plus a rotating non-member
                if !(m.contains(&(i as u16)) || exhaustive || (cp as usize + i) % 37 == 0) {
                    continue;
                }
                let exp = m.contains(&(i as u16));
                if let Some(vm) = &vm {
                    let got = guarded(|| vm.parse(&rule_names[i], s).is_ok()).unwrap_or(false);
                    checked4 += 1;
                    if got != exp {
                        ndis += 1;
                        if disagreements.len() < 50 {
                            disagreements.push(json!({"cp": cp, "name": NAMES[i], "function": exp, "vm": got}));
                        }
                    }
                }
                // path 6 (on a third of the sampled characters)
                if let Some(uvm) = &uvm {
                    if light && (cp as usize + i) % 3 == 0 && (m.contains(&(i as u16)) || (cp as usize + i) % 37 == 0) {
                        for (gi, g) in groups.iter().enumerate() {
                            let expu = exp || m.contains(&(*g as u16));
                            for pre in ["u", "v"] {
                                let got = guarded(|| uvm.parse(&format!("{pre}{gi}_{i}"), s).is_ok()).unwrap_or(false);
                                checked6 += 1;
                                if got != expu {
                                    ndis += 1;
                                    if disagreements.len() < 50 {
                                        let expr = if pre == "u" { format!("{} | {}", NAMES[*g], NAMES[i]) } else { format!("{} | {}", NAMES[i], NAMES[*g]) };
                                        disagreements.push(json!({"cp": cp, "name": expr, "function": expu, "vm": got}));
                                    }
                                }
                            }
                        }
                    }
                } else if ndis == 0 {
                    ndis += 1;
                    disagreements.push(json!({"cp": cp, "name": "grammar of all `GROUP | NAME` rules", "function": true, "vm": false}));
                }
                // path 5: the property name itself as the START rule of the same VM, held in a short-lived String
                // (a VM may be used for many parses and the caller's name buffers come and go)
                if let Some(vm) = &vm {
                    let name_buf = String::from(NAMES[i]);
                    let got = guarded(|| vm.parse(&name_buf, s).is_ok()).unwrap_or(false);
                    drop(name_buf);
                    checked4 += 1;
                    if got != exp {
                        ndis += 1;
                        if disagreements.len() < 50 {
                            disagreements.push(json!({"cp": cp, "name": NAMES[i], "function": exp, "vm_as_start_rule": got}));
                        }
                    }
                }
                let got = run(0, &rule_names[i], s)["k"] == "ok";
                checked4 += 1;
                if got != exp {
                    ndis += 1;
                    if disagreements.len() < 50 {
                        disagreements.push(json!({"cp": cp, "name": NAMES[i], "function": exp, "generated": got}));
                    }
                }
            }
        }
        prev_members = m.clone();
        match &mut cur {
            Some((_, hi, mm)) if *mm == m && *hi + 1 == cp => *hi = cp,
            _ => {
                if let Some((lo, hi, mm)) = cur.take() {
                    runs += 1;
                    wl(&mut w, &json!({"ev": "run", "lo": lo, "hi": hi, "m": mm.iter().map(|i| NAMES[*i as usize]).collect::<Vec<_>>()}));
                }
                cur = Some((cp, cp, m));
            }
        }
    }
    if let Some((lo, hi, mm)) = cur.take() {
        runs += 1;
        wl(&mut w, &json!({"ev": "run", "lo": lo, "hi": hi, "m": mm.iter().map(|i| NAMES[*i as usize]).collect::<Vec<_>>()}));
    }
    for d in &disagreements {
        let mut d = d.clone();
        d["ev"] = json!("disagree");
        wl(&mut w, &d);
    }
    wl(&mut w, &json!({"ev": "names", "functions": NAMES, "resolves": NAMES.iter().zip(&resolves).filter(|(_, r)| !**r).map(|(n, _)| *n).collect::<Vec<_>>(),
                       "rejected_by_validator": NAMES.iter().zip(&accepted).filter(|(_, r)| !**r).map(|(n, _)| *n).collect::<Vec<_>>(),
                       "vm_grammar_ok": vm.is_some()}));
    w.flush().unwrap();
    println!("{}", json!({"runs": runs, "names": n, "disagreements": ndis, "checked_by_name": checked23, "checked_vm_and_generated": checked4, "checked_group_or_name": checked6}));
}
