//! C17: schedule replayer for pest_debugger.  Behaviours of spec/Debugger.tla (sequences of
//! controller and parser-thread actions) are forced on the real DebuggerContext through the
//! observation points of pest_debugger::verif (hook H4): every thread stops in front of each
//! linearization point and the director releases exactly the thread the behaviour names.
use pest_debugger::{DebuggerContext, DebuggerEvent};
use serde_json::{json, Value};
use std::collections::HashMap;
use std::io::{BufRead, Write};
use std::sync::mpsc::{channel, sync_channel, Receiver, Sender};
use std::sync::{Arc, Condvar, Mutex};
use std::thread::{self, ThreadId};
use std::time::{Duration, Instant};

// `top` is a NORMAL rule on purpose: an abandoned parse that an optional absorbs has to unwind through the
// token bookkeeping of an enclosing rule (the silent variant `top = _{ .. }` is run as well, see c17.py)
const GRAMMAR_DEFAULT: &str = "a = { \"x\" }\nb = { \"y\" }\ntop = { a ~ b ~ a ~ b? }\n";

/// The grammar of the replayed parse (start rule `top`); VDBG_GRAMMAR replaces the default.
fn grammar() -> &'static str {
    static G: std::sync::OnceLock<String> = std::sync::OnceLock::new();
    G.get_or_init(|| std::env::var("VDBG_GRAMMAR").unwrap_or_else(|_| GRAMMAR_DEFAULT.to_string()))
}

#[derive(Default)]
struct State {
    ctl: Option<ThreadId>,
    keys: HashMap<ThreadId, String>,
    npar: usize,
    waiting: HashMap<String, &'static str>,
    released: HashMap<String, u64>,
    free: bool,
}

struct Gates {
    m: Mutex<State>,
    cv: Condvar,
}

impl Gates {
    fn key(st: &mut State, id: ThreadId) -> String {
        if Some(id) == st.ctl {
            return "ctl".into();
        }
        if let Some(k) = st.keys.get(&id) {
            return k.clone();
        }
        st.npar += 1;
        let k = format!("par{}", st.npar);
        st.keys.insert(id, k.clone());
        k
    }

    /// called by the code under test in front of a linearization point
    fn arrive(&self, name: &'static str) {
        let mut st = self.m.lock().unwrap();
        if st.free {
            return;
        }
        let key = Self::key(&mut st, thread::current().id());
        st.waiting.insert(key.clone(), name);
        let mine = *st.released.get(&key).unwrap_or(&0);
        self.cv.notify_all();
        while !st.free && *st.released.get(&key).unwrap_or(&0) == mine {
            st = self.cv.wait(st).unwrap();
        }
        st.waiting.remove(&key);
    }

    /// director: wait until `key` stands at some gate; returns its name
    fn wait_any(&self, key: &str, timeout: Duration) -> Option<&'static str> {
        let t0 = Instant::now();
        let mut st = self.m.lock().unwrap();
        loop {
            if let Some(n) = st.waiting.get(key) {
                return Some(n);
            }
            let left = timeout.checked_sub(t0.elapsed())?;
            let (g, _) = self.cv.wait_timeout(st, left).unwrap();
            st = g;
        }
    }

    fn release(&self, key: &str) {
        let mut st = self.m.lock().unwrap();
        st.waiting.remove(key);
        *st.released.entry(key.to_string()).or_insert(0) += 1;
        self.cv.notify_all();
    }

    fn set_free(&self) {
        let mut st = self.m.lock().unwrap();
        st.free = true;
        self.cv.notify_all();
    }
}

enum Cmd {
    Run,
    RunBad,
    Cont,
    Add(String),
    Del(String),
    DelAll,
    AddAll,
    Quit,
}

enum Reply {
    NewChannel(Receiver<DebuggerEvent>),
    Done(String),
}

fn controller(cap: usize, input: String, cmds: Receiver<Cmd>, replies: Sender<Reply>) {
    let mut ctx = DebuggerContext::default();
    ctx.load_grammar_direct("g", grammar()).expect("grammar");
    ctx.load_input_direct(input);
    for c in cmds {
        let r = match c {
            Cmd::Run => {
                let (tx, rx) = sync_channel(cap);
                replies.send(Reply::NewChannel(rx)).unwrap();
                format!("{:?}", ctx.run("top", tx).map_err(|e| format!("{e:?}")))
            }
            Cmd::RunBad => {
                // a rule the grammar does not define: the parser thread reports the entry and then panics
                let (tx, rx) = sync_channel(cap);
                replies.send(Reply::NewChannel(rx)).unwrap();
                format!("{:?}", ctx.run("no_such_rule", tx).map_err(|e| format!("{e:?}")))
            }
            Cmd::Cont => format!("{:?}", ctx.cont().map_err(|e| e.to_string())),
            Cmd::Add(r) => {
                ctx.add_breakpoint(r);
                "ok".into()
            }
            Cmd::Del(r) => {
                ctx.delete_breakpoint(&r);
                "ok".into()
            }
            Cmd::DelAll => {
                ctx.delete_all_breakpoints();
                "ok".into()
            }
            Cmd::AddAll => format!("{:?}", ctx.add_all_rules_breakpoints().map_err(|e| format!("{e:?}"))),
            Cmd::Quit => break,
        };
        if replies.send(Reply::Done(r)).is_err() {
            break;
        }
    }
    // the context (and its parked threads) is leaked on purpose: joining could block
    std::mem::forget(ctx);
}

/// The rule entries of the plain parse (recording listener on the real VM).
fn entries(input: &str) -> (Vec<(String, usize)>, String) {
    let (_, rules) = pest_meta::parse_and_optimize(grammar()).expect("grammar");
    let log: Arc<Mutex<Vec<(String, usize)>>> = Arc::new(Mutex::new(vec![]));
    let l2 = Arc::clone(&log);
    let vm = pest_vm::Vm::new_with_listener(
        rules,
        Box::new(move |rule, pos| {
            l2.lock().unwrap().push((rule, pos.pos()));
            false
        }),
    );
    let fin = if vm.parse("top", input).is_ok() { "Eof" } else { "Error" };
    let v = log.lock().unwrap().clone();
    (v, fin.to_string())
}

fn ev_json(e: &DebuggerEvent) -> Value {
    match e {
        DebuggerEvent::Breakpoint(r, p) => json!({"t": "Breakpoint", "rule": r, "pos": p}),
        DebuggerEvent::Eof => json!({"t": "Eof"}),
        DebuggerEvent::Error(_) => json!({"t": "Error"}),
    }
}

/// Replays one behaviour; returns a JSON verdict.
fn replay(beh: &Value, input: &str, cap: usize, ents: &[(String, usize)], fin: &str) -> Value {
    let gates = Arc::new(Gates { m: Mutex::new(State::default()), cv: Condvar::new() });
    let g2 = Arc::clone(&gates);
    pest_debugger::verif::set_hook(Some(Arc::new(move |name| g2.arrive(name))));
    let (ctx_tx, ctx_rx) = channel::<Cmd>();
    let (rep_tx, rep_rx) = channel::<Reply>();
    let inp = input.to_string();
    let ctl = thread::spawn(move || controller(cap, inp, ctx_rx, rep_tx));
    gates.m.lock().unwrap().ctl = Some(ctl.thread().id());
    let mut receivers: Vec<Receiver<DebuggerEvent>> = vec![];
    let mut aborted: HashMap<String, bool> = HashMap::new();
    let mut cmd_open = false;
    // threads that were let into their look-up early (while the controller held the table, see "add" below)
    let mut early_lookup: std::collections::HashSet<String> = Default::default();
    let t5 = Duration::from_secs(5);
    let steps = beh["hist"].as_array().unwrap();
    let mut problem: Option<Value> = None;
    let drain = |rep_rx: &Receiver<Reply>, receivers: &mut Vec<Receiver<DebuggerEvent>>, wait: Duration| -> Option<String> {
        // collects replies of the controller thread; returns the result of a finished command
        let t0 = Instant::now();
        loop {
            match rep_rx.recv_timeout(wait.saturating_sub(t0.elapsed())) {
                Ok(Reply::NewChannel(rx)) => receivers.push(rx),
                Ok(Reply::Done(r)) => {
                    // a run() that failed in join (the previous thread had panicked) started no session:
                    // the channel handed over for it belongs to no run
                    if r.contains("PreviousRunPanic") {
                        receivers.pop();
                    }
                    return Some(r);
                }
                Err(_) => return None,
            }
        }
    };
    'steps: for (i, st) in steps.iter().enumerate() {
        let who = st["who"].as_str().unwrap();
        let act = st["act"].as_str().unwrap();
        let fail = |why: String| json!({"step": i + 1, "action": st, "why": why});
        if who == "ctl" {
            match act {
                "cmd" => {
                    let c = if st["data"] == "run" { Cmd::Run } else if st["data"] == "runbad" { Cmd::RunBad } else { Cmd::Cont };
                    ctx_tx.send(c).unwrap();
                    cmd_open = true;
                }
                "add" | "del" | "delall" | "addall" => {
                    let r = st["data"].as_str().unwrap_or("").to_string();
                    ctx_tx.send(match act { "add" => Cmd::Add(r), "del" => Cmd::Del(r), "addall" => Cmd::AddAll, _ => Cmd::DelAll }).unwrap();
                    // the command now holds the lock of the breakpoint table (it stands at BpHeld, inside the lock)
                    if gates.wait_any("ctl", t5) != Some("BpHeld") {
                        problem = Some(fail("breakpoint command did not reach its critical section within 5 s".into()));
                        break 'steps;
                    }
                    // a parser thread that is about to look a rule up has to wait for the lock: let it try - it must not
                    // get anywhere while the controller holds the table (sampled after a grace period)
                    // (only a thread whose look-up is the very next thing the behaviour does after the release: letting it
                    // try commits it to look up as soon as the table is free)
                    let next_lookup: Option<String> = match (steps.get(i + 1), steps.get(i + 2)) {
                        (Some(a), Some(b)) if a["act"] == "BpRelease" && b["who"] == "par" && b["act"] == "Lookup" => Some(format!("par{}", b["g"])),
                        _ => None,
                    };
                    let at_lookup: Vec<String> = {
                        let st = gates.m.lock().unwrap();
                        st.waiting.iter().filter(|(k, n)| Some(*k) == next_lookup.as_ref() && **n == "Lookup").map(|(k, _)| k.clone()).collect()
                    };
                    for key in at_lookup {
                        gates.release(&key);
                        thread::sleep(Duration::from_millis(120));
                        if let Some(n) = gates.wait_any(&key, Duration::from_millis(1)) {
                            problem = Some(fail(format!("parser thread {key} looked a rule up and went on to {n} while the controller held the breakpoint table")));
                            break 'steps;
                        }
                        early_lookup.insert(key);
                    }
                }
                "BpRelease" => {
                    gates.release("ctl");
                    if drain(&rep_rx, &mut receivers, t5).is_none() {
                        problem = Some(fail("breakpoint command did not return".into()));
                        break 'steps;
                    }
                }
                "Recv" => {
                    let g = st["g"].as_u64().unwrap() as usize;
                    // make sure the channel of run g has been handed over
                    let _ = drain(&rep_rx, &mut receivers, Duration::from_millis(1));
                    let exp = &st["data"];
                    match receivers.get(g - 1).map(|rx| rx.recv_timeout(t5)) {
                        Some(Ok(e)) => {
                            let got = ev_json(&e);
                            let ok = match exp["t"].as_str().unwrap() {
                                "Breakpoint" => {
                                    let k = exp["k"].as_u64().unwrap() as usize;
                                    got["t"] == "Breakpoint" && got["rule"] == ents[k - 1].0.as_str() && got["pos"] == ents[k - 1].1
                                }
                                "Aborted" => got["t"] == "Error" || got["t"] == "Eof",
                                t => got["t"] == t && t == fin,
                            };
                            if !ok {
                                problem = Some(fail(format!("received {got}, the model delivers {exp}")));
                                break 'steps;
                            }
                        }
                        _ => {
                            problem = Some(fail("nothing received within 5 s although the model has an event in the channel".into()));
                            break 'steps;
                        }
                    }
                }
                gate => {
                    // a linearization point inside run() / cont()
                    match gates.wait_any("ctl", t5) {
                        Some(n) if n == gate => {
                            gates.release("ctl");
                            // the action is over when the thread stands at its next point (or the command returned)
                            let last = matches!(gate, "Spawn" | "ContUnpark") || (gate == "ContLoad" && st["data"] != "ok") || (gate == "RunJoin" && st["data"] == "panic");
                            if !last && gates.wait_any("ctl", t5).is_none() {
                                problem = Some(fail(format!("controller did not reach its next point within 5 s after {gate}")));
                                break 'steps;
                            }
                        }
                        Some(n) => {
                            problem = Some(fail(format!("controller stands at {n}, the model expects {gate}")));
                            break 'steps;
                        }
                        None => {
                            problem = Some(fail(format!("controller did not reach {gate} within 5 s")));
                            break 'steps;
                        }
                    }
                    let last = matches!(gate, "Spawn" | "ContUnpark") || (gate == "ContLoad" && st["data"] != "ok") || (gate == "RunJoin" && st["data"] == "panic");
                    if last {
                        if drain(&rep_rx, &mut receivers, t5).is_none() {
                            problem = Some(fail(format!("the command did not return after {gate}")));
                            break 'steps;
                        }
                        cmd_open = false;
                    }
                }
            }
        } else {
            let key = format!("par{}", st["g"]);
            let mut guard = 0;
            if act == "Lookup" && early_lookup.remove(&key) {
                // already released: the look-up completes now that the table is free; it is over when the thread
                // stands at its next point
                if st["data"] != "panic" && gates.wait_any(&key, t5).is_none() {
                    problem = Some(fail(format!("parser thread {key} did not finish its look-up within 5 s after the table was released")));
                    break 'steps;
                }
                continue;
            }
            loop {
                match gates.wait_any(&key, t5) {
                    Some(n) if n == act => {
                        gates.release(&key);
                        // the action is over when the thread stands at its next point (Exit has none, nor has the
                        // lookup after which a thread started on an undefined rule panics)
                        let dies = act == "Exit" || (act == "Lookup" && st["data"] == "panic");
                        if !dies && gates.wait_any(&key, t5).is_none() {
                            problem = Some(fail(format!("parser thread {key} did not reach its next point within 5 s after {act}")));
                            break 'steps;
                        }
                        break;
                    }
                    // an abandoned parse may enter further rules; each entry returns at once
                    Some("LoadDone") if *aborted.get(&key).unwrap_or(&false) && guard < 1000 => {
                        guard += 1;
                        gates.release(&key);
                    }
                    Some(n) => {
                        problem = Some(fail(format!("parser thread {key} stands at {n}, the model expects {act}")));
                        break 'steps;
                    }
                    None => {
                        problem = Some(fail(format!("parser thread {key} did not reach {act} within 5 s")));
                        break 'steps;
                    }
                }
            }
            if act == "LoadDone" && st["data"] == "abort" {
                aborted.insert(key, true);
            }
        }
    }
    // a thread the model leaves waiting for a continue stands in front of its park(): let it go in - it must stay
    // there (sampled after a grace period; a spurious return of park would be reported here, see the assumptions)
    if problem.is_none() && beh["expect_stuck"] != true {
        if let Some(parked) = beh["parked"].as_array() {
            for (gi, p) in parked.iter().enumerate() {
                if p != true {
                    continue;
                }
                let key = format!("par{}", gi + 1);
                if gates.wait_any(&key, t5) == Some("Park") {
                    gates.release(&key);
                    thread::sleep(Duration::from_millis(150));
                    if let Some(n) = gates.wait_any(&key, Duration::from_millis(1)) {
                        problem = Some(json!({"step": "end", "why": format!("parser thread {key} waits for a continue in the model, the real thread went on to {n} without one")}));
                    }
                }
            }
        }
    }
    // final observations: what is left in the channels must be what the model has there
    let mut verdict = json!({"ok": problem.is_none(), "problem": problem, "stuck_confirmed": Value::Null});
    if verdict["ok"] == true && beh["expect_stuck"] != true {
        // (not for stuck ends: receiving here would be exactly the help the stuck threads do not get)
        thread::sleep(Duration::from_millis(20));
        let _ = drain(&rep_rx, &mut receivers, Duration::from_millis(1));
        for (gi, exp) in beh["chan"].as_array().unwrap().iter().enumerate() {
            let mut got = vec![];
            if let Some(rx) = receivers.get(gi) {
                while let Ok(e) = rx.try_recv() {
                    got.push(ev_json(&e)["t"].clone());
                }
            }
            let want: Vec<Value> = exp
                .as_array()
                .unwrap()
                .iter()
                .map(|e| if e["t"] == "Aborted" { json!("*") } else { e["t"].clone() })
                .collect();
            let same = got.len() == want.len() && got.iter().zip(&want).all(|(a, b)| b == "*" || a == b);
            if !same {
                verdict = json!({"ok": false, "problem": {"step": "end", "why": format!("channel of run {} holds {:?}, the model has {:?}", gi + 1, got, want)},
                                 "stuck_confirmed": Value::Null});
            }
        }
    }
    // does the open command terminate when everything may run freely?  (restart liveness)
    gates.set_free();
    if beh["expect_stuck"] == true && verdict["ok"] == true {
        let finished = cmd_open && drain(&rep_rx, &mut receivers, Duration::from_secs(2)).is_some();
        verdict["stuck_confirmed"] = json!(cmd_open && !finished);
    } else if cmd_open {
        let _ = drain(&rep_rx, &mut receivers, Duration::from_secs(3));
    }
    let _ = ctx_tx.send(Cmd::Quit);
    pest_debugger::verif::set_hook(None);
    // the receivers are leaked: a parser thread that is still blocked in send must not see a closed channel
    std::mem::forget(receivers);
    verdict
}

/// Names a listener can be told about besides the grammar's own rules.
const BUILTIN_NAMES: [&str; 24] = [
    "ANY", "EOI", "SOI", "NEWLINE", "PEEK", "PEEK_ALL", "POP", "POP_ALL", "DROP", "WHITESPACE", "COMMENT", "ASCII_DIGIT",
    "ASCII_NONZERO_DIGIT", "ASCII_BIN_DIGIT", "ASCII_OCT_DIGIT", "ASCII_HEX_DIGIT", "ASCII_ALPHA_LOWER", "ASCII_ALPHA_UPPER",
    "ASCII_ALPHA", "ASCII_ALPHANUMERIC", "ASCII", "LETTER", "NUMBER", "ALPHABETIC",
];

fn text_of(cps: &Value) -> String {
    cps.as_array().unwrap().iter().map(|c| char::from_u32(c.as_u64().unwrap() as u32).unwrap()).collect()
}

/// `vdbg sessions --in FILE --dir DIR`: whole stepping sessions the way the command-line debugger drives them -
/// grammar and input loaded FROM FILES, a breakpoint on every rule and every built-in name, `run`, then `cont` after
/// every event until the final one.  FILE is the output of `vh entries-emit`: the events of the session must be the
/// rule entries a plain listener on the VM was told about for the same text (which Trace_Entries ties to the
/// semantics), followed by Eof when the parse succeeds and Error when it fails.  No gates: the threads run freely.
fn sessions(path: &str, dir: &str) -> Value {
    std::fs::create_dir_all(dir).unwrap();
    let gpath = format!("{dir}/g.pest");
    let ipath = format!("{dir}/i.txt");
    let (mut ncases, mut nevents, mut nskipped) = (0u64, 0u64, 0u64);
    let mut bad = vec![];
    let f = std::io::BufReader::new(std::fs::File::open(path).unwrap());
    for line in f.lines() {
        let line = line.unwrap();
        if line.trim().is_empty() {
            continue;
        }
        let rec: Value = serde_json::from_str(&line).unwrap();
        let text = rec["text"].as_str().unwrap();
        std::fs::write(&gpath, text).unwrap();
        let mut ctx = DebuggerContext::default();
        if let Err(e) = ctx.load_grammar(&gpath) {
            bad.push(json!({"grammar": text, "problem": format!("load_grammar: {e:?}")}));
            continue;
        }
        for c in rec["cases"].as_array().unwrap() {
            let fin_exp = match c["k"].as_str() {
                Some("ok") => "Eof",
                Some("fail") => "Error",
                _ => {
                    nskipped += 1;
                    continue;
                }
            };
            let input = text_of(&c["inp"]);
            std::fs::write(&ipath, &input).unwrap();
            let exp: Vec<(String, usize)> =
                c["entries"].as_array().unwrap().iter().map(|e| (e["r"].as_str().unwrap().to_string(), e["p"].as_u64().unwrap() as usize)).collect();
            let start = c["start"].as_str().unwrap();
            let mut problem = String::new();
            if let Err(e) = ctx.load_input(&ipath) {
                problem = format!("load_input: {e:?}");
            }
            ctx.delete_all_breakpoints();
            let _ = ctx.add_all_rules_breakpoints();
            for b in BUILTIN_NAMES {
                ctx.add_breakpoint(b.to_string());
            }
            for (r, _) in &exp {
                ctx.add_breakpoint(r.clone());
            }
            let (tx, rx) = sync_channel(1);
            let mut got: Vec<(String, usize)> = vec![];
            let mut fin = "none".to_string();
            if problem.is_empty() {
                match ctx.run(start, tx) {
                    Err(e) => problem = format!("run: {e:?}"),
                    Ok(()) => loop {
                        match rx.recv_timeout(Duration::from_secs(10)) {
                            Ok(DebuggerEvent::Breakpoint(r, p)) => {
                                got.push((r, p));
                                if got.len() > exp.len() + 50 {
                                    fin = "Runaway".into();
                                    break;
                                }
                                if let Err(e) = ctx.cont() {
                                    problem = format!("cont: {e:?}");
                                    break;
                                }
                            }
                            Ok(DebuggerEvent::Eof) => {
                                fin = "Eof".into();
                                break;
                            }
                            Ok(DebuggerEvent::Error(_)) => {
                                fin = "Error".into();
                                break;
                            }
                            Err(_) => {
                                fin = "Timeout".into();
                                break;
                            }
                        }
                    },
                }
            }
            ncases += 1;
            nevents += got.len() as u64;
            if !problem.is_empty() || got != exp || fin != fin_exp {
                if bad.len() < 40 {
                    bad.push(json!({"grammar": text, "start": start, "inp": c["inp"], "problem": problem,
                                    "expected_events": exp.iter().map(|(r, p)| json!([r, p])).collect::<Vec<_>>(), "expected_final": fin_exp,
                                    "observed_events": got.iter().map(|(r, p)| json!([r, p])).collect::<Vec<_>>(), "observed_final": fin}));
                }
                if fin == "Timeout" || fin == "Runaway" || !problem.is_empty() {
                    // the session may have left a thread behind: go on with a fresh context
                    std::mem::forget(std::mem::take(&mut ctx));
                    if ctx.load_grammar(&gpath).is_err() {
                        break;
                    }
                }
            }
        }
    }
    json!({"cases": ncases, "events": nevents, "skipped": nskipped, "mismatch_count": bad.len(), "mismatches": bad})
}

fn arg(args: &[String], k: &str) -> Option<String> {
    args.iter().position(|a| a == k).and_then(|i| args.get(i + 1).cloned())
}

fn main() {
    let args: Vec<String> = std::env::args().collect();
    let input = arg(&args, "--input").unwrap_or_else(|| "xyx".into());
    match args.get(1).map(|s| s.as_str()) {
        Some("entries") => {
            let (e, fin) = entries(&input);
            println!("{}", json!({"entries": e.iter().map(|x| x.0.clone()).collect::<Vec<_>>(),
                                  "positions": e.iter().map(|x| x.1).collect::<Vec<_>>(), "final": fin, "grammar": grammar(), "input": input,
                                  "rules": pest_meta::parse_and_optimize(grammar()).map(|(_, r)| r.iter().map(|x| x.name.clone()).collect::<Vec<_>>()).unwrap_or_default()}));
        }
        Some("sessions") => {
            println!("{}", sessions(&arg(&args, "--in").unwrap(), &arg(&args, "--dir").unwrap()));
        }
        Some("replay-one") => {
            // one behaviour per process: parser threads of abandoned runs stay parked for ever and must not
            // meet the gates of another replay
            let cap: usize = arg(&args, "--cap").unwrap().parse().unwrap();
            let mut line = String::new();
            std::io::stdin().read_line(&mut line).unwrap();
            let beh: Value = serde_json::from_str(&line).unwrap();
            let (ents, fin) = entries(&input);
            println!("{}", replay(&beh, &input, cap, &ents, &fin));
        }
        Some("replay") => {
            let cap = arg(&args, "--cap").unwrap();
            let path = arg(&args, "--behaviours").unwrap();
            let out = arg(&args, "--out").unwrap();
            let lines: Vec<String> = std::io::BufReader::new(std::fs::File::open(path).unwrap())
                .lines()
                .map(|l| l.unwrap())
                .filter(|l| !l.trim().is_empty())
                .collect();
            let exe = std::env::current_exe().unwrap();
            let next = Arc::new(Mutex::new(0usize));
            let results: Arc<Mutex<Vec<(usize, Value)>>> = Arc::new(Mutex::new(vec![]));
            let lines = Arc::new(lines);
            let mut workers = vec![];
            for _ in 0..8 {
                let (next, results, lines, exe, cap, input) = (next.clone(), results.clone(), lines.clone(), exe.clone(), cap.clone(), input.clone());
                workers.push(thread::spawn(move || loop {
                    let i = {
                        let mut n = next.lock().unwrap();
                        let i = *n;
                        *n += 1;
                        i
                    };
                    if i >= lines.len() {
                        break;
                    }
                    let mut child = std::process::Command::new(&exe)
                        .args(["replay-one", "--cap", &cap, "--input", &input])
                        .stdin(std::process::Stdio::piped())
                        .stdout(std::process::Stdio::piped())
                        .stderr(std::process::Stdio::null())
                        .spawn()
                        .unwrap();
                    child.stdin.take().unwrap().write_all(format!("{}\n", lines[i]).as_bytes()).unwrap();
                    let o = child.wait_with_output().unwrap();
                    let v: Value = serde_json::from_slice(&o.stdout)
                        .unwrap_or_else(|_| json!({"ok": false, "problem": {"step": "process", "why": format!("replayer exited with {:?}", o.status.code())}, "stuck_confirmed": Value::Null}));
                    results.lock().unwrap().push((i, v));
                }));
            }
            for w in workers {
                w.join().unwrap();
            }
            let mut res = results.lock().unwrap().clone();
            res.sort_by_key(|x| x.0);
            let mut w = std::fs::File::create(out).unwrap();
            let (mut bad, mut stuck) = (0, 0);
            for (i, v) in &res {
                let beh: Value = serde_json::from_str(&lines[*i]).unwrap();
                if v["ok"] != true {
                    bad += 1;
                }
                if v["stuck_confirmed"] == true {
                    stuck += 1;
                }
                writeln!(w, "{}", json!({"id": i + 1, "steps": beh["hist"].as_array().unwrap().len(), "verdict": v, "behaviour": beh})).unwrap();
            }
            println!("{}", json!({"behaviours": res.len(), "mismatches": bad, "stuck_confirmed": stuck}));
        }
        _ => {
            eprintln!("usage: vdbg entries|replay ...");
            std::process::exit(2);
        }
    }
    // parked parser threads of abandoned runs must not keep the process alive
    std::process::exit(0);
}
