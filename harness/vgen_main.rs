//! Generated-parser runner (template; copied into harness/gen/<id>/src/main.rs by lib/gencrate.py).
//! `parsers.rs` next to it holds one `#[derive(Parser)] #[grammar_inline = ..]` module per grammar.
mod parsers;

use serde_json::{json, Value};
use std::io::Write;
use vh::peg::*;
use vh::util::*;

fn strip(mut o: Value) -> Value {
    if let Some(m) = o.as_object_mut() {
        m.remove("calls");
        m.remove("limit_reached");
        // C02 compares the expected/unexpected rules as SETS of names: the VM orders them as strings,
        // generated code by enum declaration order (sortedness per back-end is C08's subject)
        for k in ["positives", "negatives"] {
            if let Some(Value::Array(a)) = m.get_mut(k) {
                a.sort_by(|x, y| x.as_str().cmp(&y.as_str()));
            }
        }
    }
    o
}

/// `vgen both --list FILE --out FILE`: every (grammar, start, input) on the derived parser and on
/// the VM built from the same text; one merged record per grammar for Trace_Backends.
fn both(args: &[String]) {
    silence_panics();
    let list = arg(args, "--list").expect("--list");
    let out = arg(args, "--out").expect("--out");
    let detail = arg_or(args, "--detail", "off") == "on";
    let reports = arg_or(args, "--reports", "off") == "on";
    let mut w = writer(&out);
    let (mut n, mut cases, mut dropped, mut fails) = (0u64, 0u64, 0u64, 0u64);
    let uni = vh::c01::uni_table(&vh::gen::ALPHA);
    for line in read_lines(&list) {
        let rec: Value = serde_json::from_str(&line).unwrap();
        let gi = rec["gi"].as_u64().unwrap() as usize;
        let text = rec["text"].as_str().unwrap();
        pest::set_call_limit(None);
        pest::set_error_detail(false);
        let (ast, opt) = match guarded(|| front_end(text)) {
            Ok(Ok(x)) => x,
            _ => continue,
        };
        // the rules the back-ends actually run (C08 reasons about the attempts of THAT run)
        let gopt = if reports { opt_rules_json(&opt) } else { serde_json::json!({}) };
        let vm = pest_vm::Vm::new(opt);
        pest::set_call_limit(std::num::NonZeroUsize::new(20000));
        pest::set_error_detail(detail);
        n += 1;
        let mut cs = vec![];
        for c in rec["cases"].as_array().unwrap() {
            let start = c["start"].as_str().unwrap();
            let inp = from_cps(&c["inp"]);
            let v = run_vm(&vm, start, &inp);
            if v["limit_reached"] == true || v["calls"].as_u64().unwrap_or(0) > 3000 || tok_depth(&v["toks"]) > 40 {
                dropped += 1;
                continue;
            }
            // (the VM finished well inside the limit: a derived parser that runs into it on the same case does
            // not behave like the VM, and the case is kept - its outcome is the call-limit error)
            let g = parsers::run(gi, start, &inp);
            if v["k"] == "fail" {
                fails += 1;
            }
            cases += 1;
            if reports {
                // C08 format: one case per back-end, failing parses only
                if v["k"] == "fail" {
                    cs.push(json!({"start": start, "inp": c["inp"], "backend": "vm", "got": v}));
                }
                if g["k"] == "fail" {
                    cs.push(json!({"start": start, "inp": c["inp"], "backend": "generated", "got": g}));
                }
                continue;
            }
            let mut o = json!({"start": start, "inp": c["inp"], "vm": strip(v), "gen": strip(g)});
            if let Some(e) = c.get("exp") {
                o["exp"] = e.clone();
            }
            cs.push(o);
        }
        wl(&mut w, &json!({"id": gi, "text": text, "g": rules_json(&ast), "gopt": gopt, "uni": uni, "extras": EXTRAS, "op": false,
                           "semantics": rec.get("semantics").and_then(|b| b.as_bool()).unwrap_or(false), "cases": cs}));
    }
    w.flush().unwrap();
    println!("{}", json!({"grammars": n, "cases": cases, "dropped": dropped, "failing_parses": fails}));
}

fn main() {
    let args: Vec<String> = std::env::args().collect();
    let rest: Vec<String> = args[1..].to_vec();
    let sub = args.get(1).cloned().unwrap_or_default();
    std::thread::Builder::new()
        .stack_size(2 << 30)
        .spawn(move || match sub.as_str() {
            "both" => both(&rest),
            "unicode" | "boot" => parsers::extra(&rest),
            _ => parsers::extra(&rest),
        })
        .unwrap()
        .join()
        .unwrap_or_else(|_| std::process::exit(3));
}
