//! The grammars bundled with pest (pest_grammars: TOML, SQL, HTTP; JSON has its own check, C18) as a
//! workload for the grammar-level specification: on every (rule, text) the parser compiled into
//! pest_grammars by #[derive(Parser)] and the VM over the CURRENT .pest file must agree, and on a sample
//! the TLA+ semantics of the file's AST gives a third opinion (validated by spec/Trace_Bootstrap.tla).
use crate::peg::*;
use crate::util::*;
use serde_json::{json, Value};
use std::io::Write;

fn norm(mut o: Value) -> Value {
    if let Some(m) = o.as_object_mut() {
        m.remove("calls");
        m.remove("limit_reached");
        m.remove("sorted");
        for k in ["positives", "negatives"] {
            if let Some(Value::Array(a)) = m.get_mut(k) {
                a.sort_by(|x, y| x.as_str().cmp(&y.as_str()));
            }
        }
    }
    o
}

fn emit_for<P: pest::Parser<R>, R: pest::RuleType>(all: &[R], file: &str, args: &[String]) {
    let texts = arg(args, "--texts").expect("--texts");
    let out = arg(args, "--out").expect("--out");
    let gout = arg(args, "--grammar-out").expect("--grammar-out");
    let doc_every = arg_u64(args, "--doc-every", 25);
    let path = format!("{}/../../../repo/grammars/src/grammars/{}", env!("CARGO_MANIFEST_DIR"), file);
    let grammar = std::fs::read_to_string(&path).expect("bundled grammar file");
    pest::set_call_limit(None);
    let (ast, opt) = front_end(&grammar).expect("a bundled grammar must pass the front-end");
    {
        let mut g = writer(&gout);
        wl(&mut g, &rules_json(&ast));
        g.flush().unwrap();
    }
    let vm = pest_vm::Vm::new(opt);
    let rules: Vec<String> = ast.iter().map(|r| r.name.clone()).collect();
    pest::set_call_limit(std::num::NonZeroUsize::new(200_000));
    let mut w = writer(&out);
    let (mut id, mut n, mut ndoc, mut dropped) = (0u64, 0u64, 0u64, 0u64);
    let mut batch: Vec<Value> = vec![];
    for line in read_lines(&texts) {
        let rec: Value = serde_json::from_str(&line).unwrap();
        let text = from_cps(&rec["text"]);
        let top_only = rec["top_only"].as_bool().unwrap_or(false);
        for (ri, r) in rules.iter().enumerate() {
            if top_only && ri != 0 && !rec["rules"].as_array().map_or(false, |a| a.iter().any(|x| x == r.as_str())) {
                continue;
            }
            let o1 = run_gen::<P, R>(all, r, &text);
            let o2 = run_vm(&vm, r, &text);
            if o2["limit_reached"] == true || o1["limit_reached"] == true || tok_depth(&o2["toks"]) > 40 {
                dropped += 1;
                continue;
            }
            let (o1, o2) = (norm(o1), norm(o2));
            n += 1;
            let doc = n % doc_every == 0 && text.chars().count() <= 48;
            ndoc += doc as u64;
            batch.push(json!({"start": r, "inp": cps(&text), "checked_in": o1.clone(), "vm": o2, "fresh": o1, "doc": doc}));
            if batch.len() >= 40 {
                id += 1;
                wl(&mut w, &json!({"id": id, "cases": batch}));
                batch = vec![];
            }
        }
    }
    if !batch.is_empty() {
        id += 1;
        wl(&mut w, &json!({"id": id, "cases": batch}));
    }
    w.flush().unwrap();
    println!("{}", json!({"cases": n, "records": id, "cases_with_semantics": ndoc, "rules": rules.len(), "dropped": dropped}));
}

/// `vh bundled-emit --which toml|sql|http --texts FILE --out FILE --grammar-out FILE [--doc-every N]`
pub fn emit(args: &[String]) {
    silence_panics();
    match arg_or(args, "--which", "toml").as_str() {
        "toml" => emit_for::<pest_grammars::toml::TomlParser, pest_grammars::toml::Rule>(pest_grammars::toml::Rule::all_rules(), "toml.pest", args),
        "sql" => emit_for::<pest_grammars::sql::SqlParser, pest_grammars::sql::Rule>(pest_grammars::sql::Rule::all_rules(), "sql.pest", args),
        "http" => emit_for::<pest_grammars::http::HttpParser, pest_grammars::http::Rule>(pest_grammars::http::Rule::all_rules(), "http.pest", args),
        w => panic!("unknown bundled grammar {w}"),
    }
}
