//! C01 (and the shared grammar workloads of C05/C08/C12/C15): drives the real front-end and VM.
use crate::gen::{self, GenCfg};
use crate::peg::*;
use crate::util::*;
use rand::rngs::StdRng;
use rand::{Rng, SeedableRng};
use serde_json::{json, Map, Value};
use std::io::Write;
use std::num::NonZeroUsize;

pub fn uni_table(alpha: &[char]) -> Value {
    let mut m = Map::new();
    for n in ["LETTER", "LOWERCASE_LETTER", "UPPERCASE_LETTER", "NUMBER", "WHITE_SPACE", "LATIN", "ALPHABETIC"] {
        let f = pest::unicode::by_name(n).expect("unicode property");
        let v: Vec<u32> = alpha.iter().filter(|c| f(**c)).map(|c| *c as u32).collect();
        m.insert(n.to_string(), json!(v));
    }
    Value::Object(m)
}

pub fn profile(name: &str, rng: &mut StdRng) -> GenCfg {
    let base = GenCfg { rules: 3, max_size: 7, stack: false, ws: false, counted: false, extras: false, builtins: true, unicode: false };
    match name {
        "plain" => base,
        "ws" => GenCfg { ws: true, ..base },
        "stack" => GenCfg { stack: true, max_size: 8, ..base },
        "counted" => GenCfg { counted: true, ws: true, ..base },
        "unicode" => GenCfg { unicode: true, ..base },
        "all" => GenCfg { stack: true, ws: true, counted: true, unicode: true, extras: EXTRAS, rules: 4, max_size: 10, ..base },
        "mix" => {
            let p = ["plain", "ws", "ws", "stack", "stack", "counted", "unicode", "all", "all"][rng.gen_range(0..9)];
            profile(p, rng)
        }
        _ => panic!("unknown profile"),
    }
}

/// `vh c01-emit --seed S --grammars N --inputs M --maxlen L --profile P --out FILE`
pub fn emit(args: &[String]) {
    silence_panics();
    let seed = arg_u64(args, "--seed", 1);
    let n = arg_u64(args, "--grammars", 100);
    let m = arg_u64(args, "--inputs", 30) as usize;
    let maxlen = arg_u64(args, "--maxlen", 8) as usize;
    let prof = arg_or(args, "--profile", "mix");
    let out = arg(args, "--out").expect("--out");
    let exhaustive_len = arg_u64(args, "--exhaustive-len", 0) as usize;
    let call_limit = NonZeroUsize::new(arg_u64(args, "--call-limit", 20000) as usize);
    let max_calls = arg_u64(args, "--max-calls", 3000);
    let mut w = writer(&out);
    let mut rng = StdRng::seed_from_u64(seed);
    let uni = uni_table(&gen::ALPHA);
    let (mut accepted, mut rejected, mut cases, mut dropped, mut ok, mut fail, mut panic) = (0u64, 0u64, 0u64, 0u64, 0u64, 0u64, 0u64);
    let mut tries = 0u64;
    while accepted < n && tries < n * 40 {
        tries += 1;
        let cfg = profile(&prof, &mut rng);
        let (g, order) = gen::grammar(&mut rng, &cfg);
        let text = grammar_text(&g, Some(&order));
        pest::set_call_limit(None); // pest_meta's own parser is subject to the global limit
        let (ast, opt) = match guarded(|| front_end(&text)) {
            Ok(Ok(x)) => x,
            Ok(Err(_)) => {
                rejected += 1;
                continue;
            }
            Err(msg) => {
                // a panic of the front-end is C09's business; record and move on
                rejected += 1;
                eprintln!("front-end panic on {text:?}: {msg}");
                continue;
            }
        };
        accepted += 1;
        pest::set_call_limit(call_limit);
        let gopt = opt_rules_json(&opt); // the rules the VM executes (C08)
        let vm = pest_vm::Vm::new(opt);
        let mut inputs: Vec<String> = if exhaustive_len > 0 {
            gen::all_inputs(&['a', 'b', ' '], exhaustive_len)
        } else {
            vec![String::new()]
        };
        while inputs.len() < m {
            inputs.push(gen::input(&mut rng, maxlen, &gen::ALPHA));
        }
        inputs.sort();
        inputs.dedup();
        let mut cs = vec![];
        for start in &order {
            for inp in &inputs {
                let got = run_vm(&vm, start, inp);
                // runs that reached the call limit (possibly absorbed), needed very many calls or
                // produced very deep trees are outside what TLC re-evaluates: dropped, counted
                if got["limit_reached"].as_bool().unwrap_or(false)
                    || got["calls"].as_u64().unwrap_or(0) > max_calls
                    || tok_depth(&got["toks"]) > 40
                {
                    dropped += 1;
                    continue;
                }
                match got["k"].as_str().unwrap() {
                    "calllimit" => {
                        dropped += 1;
                        continue;
                    }
                    "ok" => ok += 1,
                    "fail" => fail += 1,
                    _ => panic += 1,
                }
                cases += 1;
                cs.push(json!({"start": start, "inp": cps(inp), "got": got}));
            }
        }
        wl(&mut w, &json!({"id": accepted, "text": text, "g": rules_json(&ast), "gopt": gopt, "uni": uni, "extras": EXTRAS,
                           "op": false, "cases": cs}));
    }
    w.flush().unwrap();
    println!("{}", json!({"grammars": accepted, "rejected_by_validator": rejected, "cases": cases,
        "dropped_call_limit": dropped, "ok": ok, "fail": fail, "panic": panic}));
}

/// Does the observed outcome agree with the expected one (same rule as Trace_Peg!Agree)?
pub fn agree(exp: &Value, got: &Value) -> bool {
    match exp["k"].as_str().unwrap() {
        "ok" => {
            got["k"] == "ok"
                && got["toks"] == exp["toks"]
                && (got.get("end").is_none() || got["end"] == exp["end"])
                && (got.get("stk").is_none() || got["stk"] == exp["stk"])
        }
        "fail" => got["k"] == "fail",
        "abort" => got["k"] == "panic" && got["empty_stack"] == true,
        _ => true,
    }
}

/// `vh c01-replay --cases FILE`: TLC-generated grammars with expected outcomes, replayed on the
/// real front-end + VM.
pub fn replay(args: &[String]) {
    silence_panics();
    let path = arg(args, "--cases").expect("--cases");
    pest::set_call_limit(NonZeroUsize::new(200000));
    let (mut grammars, mut rejected, mut cases, mut skipped, mut nontriv) = (0u64, 0u64, 0u64, 0u64, 0u64);
    let mut mism: Vec<Value> = vec![];
    let mut nmism = 0u64;
    let mut sample = Value::Null;
    let mut by_cause: std::collections::BTreeMap<String, u64> = Default::default();
    for line in read_lines(&path) {
        let rec: Value = serde_json::from_str(&line).expect("case json");
        let text = match rec.get("text").and_then(|t| t.as_str()) {
            Some(t) => t.to_string(),
            None => grammar_text(&rec["g"], None),
        };
        let (ast, opt) = match guarded(|| front_end(&text)) {
            Ok(Ok(x)) => x,
            _ => {
                rejected += 1;
                continue;
            }
        };
        grammars += 1;
        let vm = pest_vm::Vm::new(opt);
        let mut seen_ok = false;
        let mut seen_fail = false;
        for c in rec["cases"].as_array().unwrap() {
            let k = c["exp"]["k"].as_str().unwrap();
            if k == "div" || k == "fuel" {
                skipped += 1;
                continue;
            }
            seen_ok |= k == "ok";
            seen_fail |= k == "fail";
            let inp = from_cps(&c["inp"]);
            let got = run_vm(&vm, c["start"].as_str().unwrap(), &inp);
            cases += 1;
            if !agree(&c["exp"], &got) {
                nmism += 1;
                {
                    // cause attribution: does the discrepancy vanish when the `list` pass is left out,
                    // on a grammar that contains the shape of the known lister finding?
                    let mut cause = "unknown";
                    let before_list = expr_passes(ast.clone(), "factor", &[]);
                    if has_lister_shape(&before_list) {
                        let vm2 = pest_vm::Vm::new(optimize_without(ast.clone(), &["list"]));
                        let got2 = run_vm(&vm2, c["start"].as_str().unwrap(), &inp);
                        if agree(&c["exp"], &got2) {
                            cause = "optimizer-lister (x ~ y)* ~ x";
                        }
                    }
                    let n = by_cause.entry(cause.to_string()).or_insert(0u64);
                    *n += 1;
                    if (cause == "unknown" && *n <= 25) || *n <= 3 {
                        mism.push(json!({"grammar": text, "start": c["start"], "input": inp, "inp": c["inp"],
                                         "expected": c["exp"], "observed": got, "cause": cause}));
                    }
                }
            }
        }
        if seen_ok && seen_fail {
            nontriv += 1;
            if sample.is_null() || grammars % 97 == 0 {
                sample = json!({"grammar": text, "case": rec["cases"][0]});
            }
        }
    }
    println!("{}", json!({"grammars": grammars, "rejected_by_validator": rejected, "cases": cases,
        "skipped_divergent": skipped, "nontrivial_grammars": nontriv, "mismatch_count": nmism,
        "by_cause": by_cause, "mismatches": mism, "sample": sample}));
}

/// `vh grammar-list [--cases FILE --max N | --seed S --grammars N --profile P] --gi0 K --out FILE`
/// Writes the list format of the generated-parser runner: {gi, text, cases:[{start, inp[, exp]}]},
/// only grammars the real front-end accepts.
pub fn grammar_list(args: &[String]) {
    silence_panics();
    let out = arg(args, "--out").expect("--out");
    let mut gi = arg_u64(args, "--gi0", 0);
    let mut w = writer(&out);
    let (mut seen, mut rejected) = (0u64, 0u64);
    pest::set_call_limit(None);
    if args.iter().any(|a| a == "--unicode") {
        // one grammar with a rule per advertised Unicode property name; inputs: for every name its first, middle
        // and last member and their neighbours, each as a one-character text - every rule runs on every pick
        let names: Vec<&str> = pest::unicode::unicode_property_names().collect();
        let mut picks = std::collections::BTreeSet::new();
        for n in &names {
            if let Some(f) = pest::unicode::by_name(n) {
                let members: Vec<u32> = (0u32..0x110000).filter(|c| char::from_u32(*c).map_or(false, |ch| f(ch))).collect();
                if members.is_empty() {
                    continue;
                }
                for c in [members[0], members[members.len() / 2], members[members.len() - 1]] {
                    for d in [c.saturating_sub(1), c, c + 1] {
                        if char::from_u32(d).is_some() {
                            picks.insert(d);
                        }
                    }
                }
            }
        }
        let text: String = names.iter().map(|n| format!("p_{} = {{ {} }}\n", n.to_lowercase(), n)).collect();
        let mut cs = vec![];
        for n in &names {
            for c in &picks {
                cs.push(json!({"start": format!("p_{}", n.to_lowercase()), "inp": [c]}));
            }
        }
        seen += 1;
        wl(&mut w, &json!({"gi": gi, "text": text, "cases": cs}));
        gi += 1;
    } else if let Some(cases) = arg(args, "--cases") {
        let max = arg_u64(args, "--max", 50);
        let lines: Vec<String> = read_lines(&cases).collect();
        let stride = (lines.len() as u64 / max.max(1)).max(1);
        let seed = arg_u64(args, "--seed", 1);
        let mut taken = 0;
        for (i, line) in lines.iter().enumerate() {
            if taken >= max || (i as u64 + seed) % stride != 0 {
                continue;
            }
            seen += 1;
            let rec: Value = serde_json::from_str(line).unwrap();
            let text = grammar_text(&rec["g"], None);
            if !matches!(guarded(|| front_end(&text)), Ok(Ok(_))) {
                rejected += 1;
                continue;
            }
            wl(&mut w, &json!({"gi": gi, "text": text, "cases": rec["cases"]}));
            gi += 1;
            taken += 1;
        }
    } else {
        let seed = arg_u64(args, "--seed", 1);
        let want = arg_u64(args, "--grammars", 50);
        let prof = arg_or(args, "--profile", "mix");
        let ninp = arg_u64(args, "--inputs", 25) as usize;
        let mut rng = StdRng::seed_from_u64(seed);
        let mut taken = 0;
        while taken < want && seen < want * 40 {
            seen += 1;
            let cfg = profile(&prof, &mut rng);
            let (g, order) = gen::grammar(&mut rng, &cfg);
            let text = grammar_text(&g, Some(&order));
            if !matches!(guarded(|| front_end(&text)), Ok(Ok(_))) {
                rejected += 1;
                continue;
            }
            let mut cs = vec![];
            for start in &order {
                for _ in 0..ninp {
                    cs.push(json!({"start": start, "inp": cps(&gen::input(&mut rng, 8, &gen::ALPHA))}));
                }
            }
            wl(&mut w, &json!({"gi": gi, "text": text, "cases": cs, "semantics": true}));
            gi += 1;
            taken += 1;
        }
    }
    w.flush().unwrap();
    println!("{}", json!({"written": gi - arg_u64(args, "--gi0", 0), "next_gi": gi, "considered": seen, "rejected_by_validator": rejected}));
}

/// `vh unicode-names`: the advertised Unicode property names and the three static lists.
pub fn unicode_names(_args: &[String]) {
    let adv: Vec<&str> = pest::unicode::unicode_property_names().collect();
    println!("{}", json!({"advertised": adv, "binary": pest::unicode::BINARY_PROPERTY_NAMES,
        "category": pest::unicode::CATEGORY_PROPERTY_NAMES, "script": pest::unicode::SCRIPT_PROPERTY_NAMES}));
}
