//! C05: applies the real optimizer passes one at a time (hook H3) and exports every
//! intermediate rule set for TLC (spec/Trace_Opt.tla).
use crate::c01::{profile, uni_table};
use crate::gen;
use crate::peg::*;
use crate::util::*;
use pest_meta::ast::Rule as AstRule;
use rand::rngs::StdRng;
use rand::SeedableRng;
use serde_json::{json, Value};
use std::collections::BTreeSet;
use std::io::Write;

fn alphabet(g: &Value, out: &mut BTreeSet<u32>) {
    match g {
        Value::Object(m) => {
            if let Some(t) = m.get("t").and_then(|t| t.as_str()) {
                match t {
                    "str" | "ins" | "pushlit" => {
                        for c in m["s"].as_array().unwrap() {
                            out.insert(c.as_u64().unwrap() as u32);
                        }
                    }
                    "range" => {
                        out.insert(m["lo"].as_u64().unwrap() as u32);
                        out.insert(m["hi"].as_u64().unwrap() as u32);
                    }
                    "skip" => {
                        for s in m["ss"].as_array().unwrap() {
                            for c in s.as_array().unwrap() {
                                out.insert(c.as_u64().unwrap() as u32);
                            }
                        }
                    }
                    _ => {}
                }
            }
            for v in m.values() {
                alphabet(v, out);
            }
        }
        Value::Array(a) => a.iter().for_each(|v| alphabet(v, out)),
        _ => {}
    }
}

/// One record: the source rules and the output of every real pass.
pub fn stages_record(id: u64, text: &str, ast: Vec<AstRule>, maxlen: usize, fired: &mut [u64; 8]) -> Value {
    use pest_meta::optimizer::verif as v;
    let mut stages = vec![json!({"pass": "source", "changed": false, "g": rules_json(&ast)})];
    let map = v::expr_map(&ast);
    let mut cur = ast.clone();
    for (i, p) in ["rotate", "skip", "unroll", "concatenate", "factor", "list"].iter().enumerate() {
        let next: Vec<AstRule> = cur
            .iter()
            .cloned()
            .map(|r| match *p {
                "rotate" => v::rotate(r),
                "skip" => v::skip(r, &map),
                "unroll" => v::unroll(r),
                "concatenate" => v::concatenate(r),
                "factor" => v::factor(r),
                _ => v::list(r),
            })
            .collect();
        let changed = next != cur;
        if changed {
            fired[i] += 1;
        }
        stages.push(json!({"pass": p, "changed": changed, "g": rules_json(&next)}));
        cur = next;
    }
    let before_list = expr_passes(ast.clone(), "factor", &[]);
    let lister_shape = has_lister_shape(&before_list);
    let conv: Vec<_> = cur.iter().cloned().map(v::convert).collect();
    let fin = pest_meta::optimizer::optimize(ast.clone());
    if fin != conv {
        fired[6] += 1;
    }
    // the recomposed pipeline must be the real optimize() (otherwise the stages prove nothing)
    let recomposed = finish_pipeline(cur, &[]);
    let pipeline_is_real = recomposed == fin;
    let mut al = BTreeSet::new();
    alphabet(&stages[0]["g"], &mut al);
    let mut alpha: Vec<u32> = al.into_iter().take(4).collect();
    alpha.push('z' as u32); // one character foreign to the grammar
    let starts: Vec<String> = ast.iter().map(|r| r.name.clone()).collect();
    json!({"id": id, "text": text, "stages": stages, "final": opt_rules_json(&fin), "alpha": alpha,
           "maxlen": maxlen, "starts": starts, "uni": uni_table(&gen::ALPHA), "extras": EXTRAS,
           "lister_shape": lister_shape, "pipeline_is_real": pipeline_is_real})
}

/// `vh c05-emit [--cases FILE | --seed S --grammars N --profile P] --maxlen L --out FILE`
pub fn emit(args: &[String]) {
    silence_panics();
    let out = arg(args, "--out").expect("--out");
    let maxlen = arg_u64(args, "--maxlen", 3) as usize;
    let mut w = writer(&out);
    let mut fired = [0u64; 8];
    let (mut n, mut rejected, mut not_real) = (0u64, 0u64, 0u64);
    let mut handle = |text: String, n: &mut u64, rejected: &mut u64, w: &mut dyn Write| {
        match guarded(|| front_end(&text)) {
            Ok(Ok((ast, _))) => {
                *n += 1;
                let rec = stages_record(*n, &text, ast, maxlen, &mut fired);
                if rec["pipeline_is_real"] == false {
                    not_real += 1;
                }
                serde_json::to_writer(&mut *w, &rec).unwrap();
                w.write_all(b"\n").unwrap();
            }
            _ => *rejected += 1,
        }
    };
    if let Some(cases) = arg(args, "--cases") {
        for line in read_lines(&cases) {
            let rec: Value = serde_json::from_str(&line).unwrap();
            let text = match rec.get("text").and_then(|t| t.as_str()) {
                Some(t) => t.to_string(),
                None => grammar_text(&rec["g"], None),
            };
            handle(text, &mut n, &mut rejected, &mut w);
        }
    } else {
        let seed = arg_u64(args, "--seed", 1);
        let want = arg_u64(args, "--grammars", 100);
        let prof = arg_or(args, "--profile", "mix");
        let mut rng = StdRng::seed_from_u64(seed);
        let mut tries = 0;
        while n < want && tries < want * 40 {
            tries += 1;
            let cfg = profile(&prof, &mut rng);
            let (g, order) = gen::grammar(&mut rng, &cfg);
            handle(grammar_text(&g, Some(&order)), &mut n, &mut rejected, &mut w);
        }
    }
    w.flush().unwrap();
    println!("{}", json!({"grammars": n, "rejected_by_validator": rejected, "recomposition_differs_from_optimize": not_real,
        "fired": {"rotate": fired[0], "skip": fired[1], "unroll": fired[2], "concatenate": fired[3],
                  "factor": fired[4], "list": fired[5], "restore_on_err": fired[6]}}));
}
