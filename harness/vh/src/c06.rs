//! C06: the real validator against the model's Diverges / Guarded verdicts.
use crate::c01::profile;
use crate::gen;
use crate::peg::*;
use crate::util::*;
use rand::rngs::StdRng;
use rand::SeedableRng;
use serde_json::{json, Value};
use std::io::Write;
use std::num::NonZeroUsize;

fn uses_stack(g: &Value) -> bool {
    match g {
        Value::Object(m) => {
            if let Some(t) = m.get("t").and_then(|t| t.as_str()) {
                if matches!(t, "push" | "pushlit" | "peek") {
                    return true;
                }
                if t == "id" && matches!(m["n"].as_str().unwrap(), "POP" | "PEEK" | "DROP" | "PEEK_ALL" | "POP_ALL") {
                    return true;
                }
            }
            m.values().any(uses_stack)
        }
        Value::Array(a) => a.iter().any(uses_stack),
        _ => false,
    }
}

/// Runs the witness on the real VM: does the parse fail to terminate normally
/// (call limit reached, possibly absorbed, or abort)?
fn runaway(vm: &pest_vm::Vm, start: &str, inp: &str) -> (bool, Value) {
    pest::set_call_limit(NonZeroUsize::new(100_000));
    let o = run_vm(vm, start, inp);
    pest::set_call_limit(None);
    let ran = o["k"] == "calllimit" || o["limit_reached"] == true;
    (ran, json!({"k": o["k"], "calls": o["calls"], "limit_reached": o["limit_reached"]}))
}

/// `vh c06-replay --cases FILE`: records {g, diverges, witness, guarded} from MC_Validator.
pub fn replay(args: &[String]) {
    silence_panics();
    let path = arg(args, "--cases").expect("--cases");
    let (mut n, mut accepted, mut rejected, mut div, mut guarded, mut terminating_runs) = (0u64, 0u64, 0u64, 0u64, 0u64, 0u64);
    let mut viol: Vec<Value> = vec![];
    let (mut nsound, mut ncomplete) = (0u64, 0u64);
    let mut sample = Value::Null;
    for line in read_lines(&path) {
        let rec: Value = serde_json::from_str(&line).unwrap();
        n += 1;
        let text = match rec.get("text").and_then(|t| t.as_str()) {
            Some(t) => t.to_string(),
            None => grammar_text(&rec["g"], None),
        };
        pest::set_call_limit(None);
        let fe = guarded_front_end(&text);
        let diverges = rec["diverges"] == true;
        let is_guarded = rec["guarded"] == true;
        div += diverges as u64;
        guarded += is_guarded as u64;
        match fe {
            Ok((_, opt)) => {
                accepted += 1;
                let vm = pest_vm::Vm::new(opt);
                if diverges {
                    let start = rec["witness"]["start"].as_str().unwrap();
                    let inp = from_cps(&rec["witness"]["inp"]);
                    let (ran, obs) = runaway(&vm, start, &inp);
                    if ran {
                        nsound += 1;
                        if viol.len() < 40 {
                            viol.push(json!({"which": "soundness", "grammar": text, "start": start, "input": inp,
                                             "inp": rec["witness"]["inp"], "observed": obs, "cause": rec.get("cause").cloned().unwrap_or(json!("")),
                                             "model": "parse diverges (rule re-entered at the same position or repetition without progress)"}));
                        }
                    }
                } else if sample.is_null() || n % 211 == 0 {
                    // accepted and terminating in the model: the real parse must terminate too
                    let (ran, _) = runaway(&vm, "m", "aa a");
                    terminating_runs += 1;
                    if ran && viol.len() < 40 {
                        viol.push(json!({"which": "soundness", "grammar": text, "start": "m", "input": "aa a", "inp": [97, 97, 32, 97],
                                         "model": "terminates"}));
                        nsound += 1;
                    }
                    sample = json!({"grammar": text, "diverges": diverges, "guarded": is_guarded, "accepted": true});
                }
            }
            Err(errs) => {
                rejected += 1;
                if is_guarded {
                    ncomplete += 1;
                    if viol.len() < 40 {
                        viol.push(json!({"which": "completeness", "grammar": text, "errors": errs,
                                         "model": "Guarded: every repetition body, non-final alternative and recursive path starts with a character"}));
                    }
                }
            }
        }
    }
    println!("{}", json!({"grammars": n, "accepted": accepted, "rejected": rejected, "model_diverges": div, "model_guarded": guarded,
        "soundness_violations": nsound, "completeness_violations": ncomplete, "terminating_spot_runs": terminating_runs,
        "violations": viol, "sample": sample}));
}

fn guarded_front_end(text: &str) -> Result<(Vec<pest_meta::ast::Rule>, Vec<pest_meta::optimizer::OptimizedRule>), Vec<String>> {
    match guarded(|| front_end(text)) {
        Ok(r) => r,
        Err(m) => Err(vec![format!("<panic {m}>")]),
    }
}

/// `vh c06-emit --seed S --grammars N --out FILE`: random stack-free grammars with the real
/// validator's verdict, for Trace_Validator.
pub fn emit(args: &[String]) {
    silence_panics();
    let seed = arg_u64(args, "--seed", 1);
    let want = arg_u64(args, "--grammars", 200);
    let out = arg(args, "--out").expect("--out");
    let mut w = writer(&out);
    let mut rng = StdRng::seed_from_u64(seed);
    let (mut n, mut acc) = (0u64, 0u64);
    while n < want {
        let mut cfg = profile(["plain", "ws", "counted"][(n % 3) as usize], &mut rng);
        cfg.max_size = 6;
        cfg.rules = 2 + (n % 2) as usize;
        let (g, order) = gen::grammar(&mut rng, &cfg);
        if uses_stack(&g) {
            continue;
        }
        let text = grammar_text(&g, Some(&order));
        pest::set_call_limit(None);
        // the AST is needed even when the validator rejects: parse + consume_rules only
        let ast = guarded(|| {
            let pairs = pest_meta::parser::parse(pest_meta::parser::Rule::grammar_rules, &text).ok()?;
            pest_meta::parser::consume_rules(pairs).ok()
        });
        let ast = match ast {
            Ok(Some(a)) => a,
            _ => continue,
        };
        let accepted = guarded_front_end(&text).is_ok();
        n += 1;
        acc += accepted as u64;
        wl(&mut w, &json!({"id": n, "text": text, "g": rules_json(&ast), "accepted": accepted,
                           "alpha": [97, 98, 32, 35], "maxlen": 3}));
    }
    w.flush().unwrap();
    println!("{}", json!({"grammars": n, "accepted": acc}));
}
