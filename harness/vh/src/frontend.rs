//! C09: runs of the real grammar front-end (parse, validate, consume_rules, optimize, docs::consume)
//! on damaged and arbitrary texts, recorded stage by stage for spec/FrontEnd.tla.
use crate::util::*;
use pest::error::{Error, InputLocation};
use pest_meta::parser::{self, Rule};
use rand::rngs::StdRng;
use rand::{Rng, SeedableRng};
use serde_json::{json, Value};
use std::io::Write;
use std::time::Instant;

fn err_json(e: &Error<Rule>, text: &str) -> Value {
    let (lo, hi) = match e.location {
        InputLocation::Pos(p) => (p, p),
        InputLocation::Span((a, b)) => (a, b),
    };
    let rendered = guarded(|| e.to_string().len() > 0).unwrap_or(false);
    json!({"lo": lo, "hi": hi, "lo_ok": lo <= text.len() && text.is_char_boundary(lo), "hi_ok": hi <= text.len() && text.is_char_boundary(hi),
           "rendered": rendered})
}

/// One run of the pipeline, stage by stage.
pub fn run_one(text: &str) -> Value {
    let t0 = Instant::now();
    let mut stages: Vec<Value> = vec![];
    let mut errors: Vec<Value> = vec![];
    let mut msg = String::new();
    let stage = |name: &str, outcome: &str, stages: &mut Vec<Value>| stages.push(json!({"stage": name, "outcome": outcome}));
    // 1. parse
    let pairs = match guarded(|| parser::parse(Rule::grammar_rules, text)) {
        Err(m) => {
            stage("parse", "panicked", &mut stages);
            msg = m;
            None
        }
        Ok(Err(e)) => {
            stage("parse", "errors", &mut stages);
            errors.push(err_json(&e, text));
            None
        }
        Ok(Ok(p)) => {
            stage("parse", "ok", &mut stages);
            Some(p)
        }
    };
    if let Some(pairs) = pairs {
        // 2. validate_pairs
        let v = guarded(|| pest_meta::validator::validate_pairs(pairs.clone()).map(|_| ()));
        let cont = match v {
            Err(m) => {
                stage("validate_pairs", "panicked", &mut stages);
                msg = m;
                false
            }
            Ok(Err(es)) => {
                stage("validate_pairs", "errors", &mut stages);
                errors.extend(es.iter().map(|e| err_json(e, text)));
                false
            }
            Ok(Ok(())) => {
                stage("validate_pairs", "ok", &mut stages);
                true
            }
        };
        if cont {
            // 3. consume_rules (+ validate_ast)
            match guarded(|| parser::consume_rules(pairs.clone())) {
                Err(m) => {
                    stage("consume_rules", "panicked", &mut stages);
                    msg = m;
                }
                Ok(Err(es)) => {
                    stage("consume_rules", "errors", &mut stages);
                    errors.extend(es.iter().map(|e| err_json(e, text)));
                }
                Ok(Ok(ast)) => {
                    stage("consume_rules", "ok", &mut stages);
                    // 4. optimize
                    match guarded(|| pest_meta::optimizer::optimize(ast).len()) {
                        Err(m) => {
                            stage("optimize", "panicked", &mut stages);
                            msg = m;
                        }
                        Ok(_) => {
                            stage("optimize", "ok", &mut stages);
                            // 5. the documentation extractor of the generator, on everything that parses
                            match guarded(|| pest_generator::docs::consume(pairs.clone()).line_docs.len()) {
                                Err(m) => {
                                    stage("docs", "panicked", &mut stages);
                                    msg = m;
                                }
                                Ok(_) => stage("docs", "ok", &mut stages),
                            }
                        }
                    }
                }
            }
        }
    }
    // the one-call entry point must agree with the staged run
    let whole = guarded(|| pest_meta::parse_and_optimize(text).is_ok());
    let staged_ok = stages.last().map(|s| s["outcome"] == "ok").unwrap_or(false);
    if let Ok(w) = whole {
        if w != staged_ok && msg.is_empty() {
            msg = format!("parse_and_optimize is_ok = {w} but the staged run ended {staged_ok}");
            stages.push(json!({"stage": "parse_and_optimize", "outcome": "panicked"}));
        }
    } else if msg.is_empty() {
        msg = "parse_and_optimize panicked".into();
        stages.push(json!({"stage": "parse_and_optimize", "outcome": "panicked"}));
    }
    json!({"stages": stages, "errors": errors, "len": text.len(), "elapsed_ms": t0.elapsed().as_millis() as u64, "msg": msg})
}

fn record(w: &mut dyn Write, id: u64, text: &str, fault: &str) {
    // a marker first: if the process dies inside the front-end the driver knows on which text
    writeln!(w, "{}", json!({"begin": id, "text": cps(text)})).unwrap();
    w.flush().unwrap();
    let mut r = run_one(text);
    r["id"] = json!(id);
    r["text"] = json!(text.chars().take(300).collect::<String>());
    r["fault"] = json!(fault);
    writeln!(w, "{}", r).unwrap();
}

/// `vh fe-run --cases FILE --out FILE` (texts from MC_FaultGen) or
/// `vh fe-run --seed S --texts N --out FILE` (mutations of the repository's grammars and fuzz seeds)
pub fn run(args: &[String]) {
    silence_panics();
    pest::set_call_limit(None);
    let out = arg(args, "--out").expect("--out");
    let mut w = std::io::BufWriter::new(std::fs::File::create(&out).expect("out"));
    let mut id = 0u64;
    if let Some(cases) = arg(args, "--cases") {
        for line in read_lines(&cases) {
            let rec: Value = serde_json::from_str(&line).unwrap();
            id += 1;
            record(&mut w, id, &from_cps(&rec["text"]), &format!("{}@{}", rec["fault"].as_str().unwrap_or(""), rec["at"]));
        }
    } else {
        let seed = arg_u64(args, "--seed", 1);
        let n = arg_u64(args, "--texts", 200);
        let mut rng = StdRng::seed_from_u64(seed);
        let root = format!("{}/../../../repo", env!("CARGO_MANIFEST_DIR"));
        let mut corpus: Vec<String> = vec![];
        for d in ["grammars/src/grammars", "meta/src", "derive/tests", "vm/tests", "derive/examples", "debugger/tests", "meta/fuzz/seeds", "grammars/benches"] {
            if let Ok(rd) = std::fs::read_dir(format!("{root}/{d}")) {
                let mut ps: Vec<_> = rd.flatten().map(|e| e.path()).collect();
                ps.sort();
                for p in ps {
                    if p.extension().map(|x| x == "pest").unwrap_or(false) || d.ends_with("seeds") {
                        if let Ok(t) = std::fs::read_to_string(&p) {
                            corpus.push(t);
                        }
                    }
                }
            }
        }
        let frags = ["\"\\u{110000}\"", "{99999999999}", "PEEK[99999999999..]", "'\\u{D800}'..'z'", "é", "\u{0}", "/*", "\"", "{0}", "( | )", "{,}",
                     "^", "#x =", "PUSH(", "}", "{", "~ ~", "| |", "\\", "'", "..", "ANY = { \"a\" }", "\u{1F600}", "_", "@", "$", "!{", "{{", "}}", "\r\n", "//", "///", "//!"];
        for _ in 0..n {
            let base = &corpus[rng.gen_range(0..corpus.len())];
            let chars: Vec<char> = base.chars().collect();
            let mut c: Vec<char> = if chars.len() > 1500 {
                let st = rng.gen_range(0..chars.len() - 1500);
                chars[st..st + 1500].to_vec()
            } else {
                chars.clone()
            };
            // in a third of the texts the letters inside string literals become multi-byte characters first: errors
            // located to the right of them then have a column that differs from the byte offset
            if rng.gen_bool(0.33) {
                let wide = ['\u{e9}', '\u{3b1}', '\u{905}', '\u{1F600}'];
                let mut inside = false;
                let mut k = 0;
                while k < c.len() {
                    match c[k] {
                        '\\' if inside => k += 1,
                        '"' => inside = !inside,
                        '\n' => inside = false,
                        ch if inside && ch.is_ascii_alphanumeric() && rng.gen_bool(0.7) => c[k] = wide[rng.gen_range(0..wide.len())],
                        _ => {}
                    }
                    k += 1;
                }
            }
            let fault;
            match rng.gen_range(0..9) {
                7 => {
                    // the text ends inside or right behind a comment / doc line, with and without its line break
                    let tails = ["\n//!\r", "\n/// d\r", "\n//! d\r\n", "\r", "\n//", "\n/*", "\n//!", "\n///", "\n/// \u{e9}\r", "\n// c\r"];
                    c.extend(tails[rng.gen_range(0..tails.len())].chars());
                    fault = "tail";
                }
                8 => {
                    // PEEK slices whose bounds sit at the edges of i32 with either sign, where the validator looks at them
                    let edge = ["0", "1", "2", "2147483646", "2147483647", "2147483648", "4294967295", "4294967296"];
                    let (a, b) = (edge[rng.gen_range(0..edge.len())], edge[rng.gen_range(0..edge.len())]);
                    let (sa, sb) = (["", "-"][rng.gen_range(0..2)], ["", "-"][rng.gen_range(0..2)]);
                    let forms = [format!("n = {{ PEEK[{sa}{a}..{sb}{b}] ~ \"x\" }}"), format!("n = {{ (PEEK[{sa}{a}..{sb}{b}])* }}"),
                                 format!("n = {{ \"x\" ~ PEEK[{sa}{a}..{sb}{b}]+ }}"), format!("WHITESPACE = {{ PEEK[{sa}{a}..{sb}{b}] ~ \" \" }}\nn = {{ \"a\" ~ \"b\" }}"),
                                 format!("n = {{ PUSH(\"a\") ~ (PEEK[{sa}{a}..] ~ \"x\")* }}")];
                    c = forms[rng.gen_range(0..forms.len())].chars().collect();
                    fault = "peek-edge";
                }
                0 if !c.is_empty() => {
                    let p = rng.gen_range(0..c.len());
                    c.truncate(p);
                    fault = "truncate";
                }
                1 if !c.is_empty() => {
                    let p = rng.gen_range(0..c.len());
                    c.remove(p);
                    fault = "delete-char";
                }
                2 if !c.is_empty() => {
                    let p = rng.gen_range(0..c.len());
                    c[p] = ['{', '}', '(', ')', '"', '\'', '~', '|', '*', '\\', 'é', '0'][rng.gen_range(0..12)];
                    fault = "replace-char";
                }
                3 => {
                    let p = rng.gen_range(0..=c.len());
                    let f: Vec<char> = frags[rng.gen_range(0..frags.len())].chars().collect();
                    c.splice(p..p, f);
                    fault = "insert-fragment";
                }
                4 if c.len() > 4 => {
                    let a = rng.gen_range(0..c.len() - 2);
                    let b = rng.gen_range(a + 1..c.len());
                    let other: Vec<char> = corpus[rng.gen_range(0..corpus.len())].chars().take(200).collect();
                    c.splice(a..b, other);
                    fault = "splice";
                }
                5 => {
                    // nesting up to 64
                    let d = rng.gen_range(1..=64);
                    let mut t: Vec<char> = "n = { ".chars().collect();
                    t.extend(std::iter::repeat('(').take(d));
                    t.extend("\"a\"".chars());
                    t.extend(std::iter::repeat(')').take(if rng.gen_bool(0.7) { d } else { d - 1 }));
                    t.extend(" }\n".chars());
                    c = t;
                    fault = "nesting";
                }
                _ => {
                    // digits up to 20 in a numeric position, values capped at 64 where they would be unrolled
                    let digits: String = (0..rng.gen_range(1..=20)).map(|_| (b'0' + rng.gen_range(0..10)) as char).collect();
                    let forms = [format!("n = {{ \"a\"{{{}}} }}", rng.gen_range(0..=64)), format!("n = {{ \"a\"{{{digits}}} }}"),
                                 format!("n = {{ \"a\"{{1,{digits}}} }}"), format!("n = {{ PEEK[{digits}..] }}"), format!("n = {{ PEEK[-{digits}..{digits}] }}"),
                                 format!("n = {{ \"a\"{{{},{}}} }}", rng.gen_range(0..=64), rng.gen_range(0..=64))];
                    let pick = &forms[rng.gen_range(0..forms.len())];
                    // overflowing counts are fine (located error expected); huge VALID counts are outside the property
                    c = pick.chars().collect();
                    let value = digits.parse::<u128>().unwrap_or(u128::MAX);
                    if value > 64 && value <= u32::MAX as u128 && !pick.contains("PEEK") && pick.contains(&digits) {
                        // a VALID count that the optimizer would unroll: outside the property ("bounded size")
                        c = format!("n = {{ \"a\"{{{}}} }}", digits.len()).chars().collect();
                    }
                    fault = "number";
                }
            }
            id += 1;
            record(&mut w, id, &c.into_iter().collect::<String>(), fault);
        }
    }
    w.flush().unwrap();
    println!("{}", json!({"texts": id}));
}
