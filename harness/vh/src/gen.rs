//! Seeded random generation of grammars (as JSON expression trees) and inputs.
use rand::rngs::StdRng;
use rand::Rng;
use serde_json::{json, Map, Value};

#[derive(Clone)]
pub struct GenCfg {
    pub rules: usize,       // number of ordinary rules r0..r{n-1}
    pub max_size: usize,    // max node count of a rule body
    pub stack: bool,        // allow PUSH/POP/PEEK/DROP/...
    pub ws: bool,           // may define WHITESPACE / COMMENT
    pub counted: bool,      // allow {n} {n,} {,n} {m,n}
    pub extras: bool,       // allow PUSH_LITERAL and tags (grammar-extras build only)
    pub builtins: bool,     // allow ASCII_* / NEWLINE / ANY / SOI / EOI
    pub unicode: bool,      // allow a few Unicode property rules
}

pub fn s(v: &str) -> Value {
    json!({"t": "str", "s": v.chars().map(|c| c as u32).collect::<Vec<_>>()})
}
pub fn id(n: &str) -> Value {
    json!({"t": "id", "n": n})
}

const LITS: [&str; 9] = ["a", "b", "ab", "ba", "", "é", "aa", " ", "#"];

fn leaf(rng: &mut StdRng, c: &GenCfg, depth_stack: usize) -> Value {
    let k = rng.gen_range(0..100);
    if k < 34 {
        return s(LITS[rng.gen_range(0..LITS.len())]);
    }
    if k < 40 {
        let v = ["a", "B", "aB", "é"][rng.gen_range(0..4)];
        return json!({"t": "ins", "s": v.chars().map(|c| c as u32).collect::<Vec<_>>()});
    }
    if k < 47 {
        let (lo, hi) = [('a', 'b'), ('a', 'z'), ('b', 'b'), ('0', '9'), ('\u{80}', '\u{7ff}'), ('b', 'a')][rng.gen_range(0..6)];
        return json!({"t": "range", "lo": lo as u32, "hi": hi as u32});
    }
    if k < 72 && c.rules > 0 {
        return id(&format!("r{}", rng.gen_range(0..c.rules)));
    }
    if k < 84 && c.builtins {
        let b = ["ANY", "SOI", "EOI", "ASCII_DIGIT", "ASCII_ALPHA", "NEWLINE", "ASCII_ALPHA_LOWER", "ASCII_HEX_DIGIT",
                 "ASCII_ALPHANUMERIC", "ASCII", "ANY", "EOI"][rng.gen_range(0..12)];
        return id(b);
    }
    if k < 88 && c.unicode {
        let b = ["LETTER", "LOWERCASE_LETTER", "UPPERCASE_LETTER", "NUMBER", "WHITE_SPACE", "LATIN", "ALPHABETIC"][rng.gen_range(0..7)];
        return id(b);
    }
    if c.stack {
        let j = rng.gen_range(0..14);
        return match j {
            0 | 1 | 2 => id("POP"),
            3 | 4 | 5 => id("PEEK"),
            6 => id("DROP"),
            7 => id("PEEK_ALL"),
            8 => id("POP_ALL"),
            9 | 10 => {
                let lo = rng.gen_range(-2..3);
                let open = rng.gen_bool(0.4);
                let hi = rng.gen_range(-2..3);
                json!({"t": "peek", "lo": lo, "hi": if open {0} else {hi}, "open": open})
            }
            11 if c.extras => json!({"t": "pushlit", "s": [97]}),
            _ => json!({"t": "push", "a": if depth_stack > 1 { s("a") } else { leaf(rng, c, depth_stack + 1) }}),
        };
    }
    s(LITS[rng.gen_range(0..4)])
}

pub fn expr(rng: &mut StdRng, c: &GenCfg, size: usize) -> Value {
    if size <= 1 {
        return leaf(rng, c, 0);
    }
    let k = rng.gen_range(0..100);
    if size >= 3 && k < 38 {
        let l = rng.gen_range(1..size - 1);
        return json!({"t": "seq", "a": expr(rng, c, l), "b": expr(rng, c, size - 1 - l)});
    }
    if size >= 3 && k < 58 {
        let l = rng.gen_range(1..size - 1);
        return json!({"t": "alt", "a": expr(rng, c, l), "b": expr(rng, c, size - 1 - l)});
    }
    let a = expr(rng, c, size - 1);
    let u = rng.gen_range(0..100);
    if u < 22 {
        json!({"t": "opt", "a": a})
    } else if u < 44 {
        json!({"t": "rep", "a": a})
    } else if u < 58 {
        json!({"t": "rep1", "a": a})
    } else if u < 70 {
        json!({"t": "not", "a": a})
    } else if u < 78 {
        json!({"t": "and", "a": a})
    } else if u < 88 && c.counted {
        let n = rng.gen_range(1..4);
        match rng.gen_range(0..4) {
            0 => json!({"t": "exact", "a": a, "n": n}),
            1 => json!({"t": "min", "a": a, "n": rng.gen_range(0..3)}),
            2 => json!({"t": "max", "a": a, "n": n}),
            _ => {
                let m = rng.gen_range(0..3);
                json!({"t": "minmax", "a": a, "m": m, "n": m + rng.gen_range(0..3).max(if m == 0 {1} else {0})})
            }
        }
    } else if u < 94 && c.stack {
        json!({"t": "push", "a": a})
    } else if u < 97 && c.extras {
        {
            let tg = ["t", "u"][rng.gen_range(0..2)];
            json!({"t": "tag", "a": a, "tag": tg})
        }
    } else {
        json!({"t": "opt", "a": a})
    }
}

pub const TYS: [&str; 5] = ["", "_", "@", "$", "!"];

/// A random grammar: (json object, rule order)
pub fn grammar(rng: &mut StdRng, c: &GenCfg) -> (Value, Vec<String>) {
    let mut m = Map::new();
    let mut order = vec![];
    for i in 0..c.rules {
        let size = rng.gen_range(1..=c.max_size);
        let ty = if rng.gen_bool(0.45) { "" } else { TYS[rng.gen_range(0..5)] };
        let n = format!("r{i}");
        m.insert(n.clone(), json!({"ty": ty, "e": expr(rng, c, size)}));
        order.push(n);
    }
    if c.ws && rng.gen_bool(0.7) {
        let body = match rng.gen_range(0..4) {
            0 => s(" "),
            1 => json!({"t": "alt", "a": s(" "), "b": s("\n")}),
            2 => json!({"t": "alt", "a": s(" "), "b": s("é")}),
            _ => s(" "),
        };
        let ty = if rng.gen_bool(0.5) { "_" } else { TYS[rng.gen_range(0..5)] };
        m.insert("WHITESPACE".into(), json!({"ty": ty, "e": body}));
        order.push("WHITESPACE".into());
    }
    if c.ws && rng.gen_bool(0.4) {
        let body = match rng.gen_range(0..3) {
            0 => s("#"),
            1 => json!({"t": "seq", "a": s("#"), "b": json!({"t": "opt", "a": s("a")})}),
            _ => json!({"t": "seq", "a": s("#"), "b": json!({"t": "rep", "a": s("b")})}),
        };
        let ty = if rng.gen_bool(0.5) { "_" } else { TYS[rng.gen_range(0..5)] };
        m.insert("COMMENT".into(), json!({"ty": ty, "e": body}));
        order.push("COMMENT".into());
    }
    (Value::Object(m), order)
}

pub const ALPHA: [char; 10] = ['a', 'b', 'A', 'B', ' ', '#', 'é', '\n', '1', '😀'];

pub fn input(rng: &mut StdRng, maxlen: usize, alpha: &[char]) -> String {
    let n = rng.gen_range(0..=maxlen);
    // favour a and b so that inputs get deep into the grammar
    (0..n)
        .map(|_| {
            if rng.gen_bool(0.55) {
                ['a', 'b'][rng.gen_range(0..2)]
            } else {
                alpha[rng.gen_range(0..alpha.len())]
            }
        })
        .collect()
}

/// All strings over `alpha` of length <= n.
pub fn all_inputs(alpha: &[char], n: usize) -> Vec<String> {
    let mut out = vec![String::new()];
    let mut frontier = vec![String::new()];
    for _ in 0..n {
        let mut next = vec![];
        for f in &frontier {
            for c in alpha {
                let mut t = f.clone();
                t.push(*c);
                next.push(t);
            }
        }
        out.extend(next.iter().cloned());
        frontier = next;
    }
    out
}
