//! C18: the bundled JSON parser (pest_grammars::json) against the verdicts and trees of
//! spec/Json8259.tla, and recording of real parses of generated documents.
use crate::peg::*;
use crate::util::*;
use pest::Parser;
use pest_grammars::json::{JsonParser, Rule};
use rand::rngs::StdRng;
use rand::{Rng, SeedableRng};
use serde_json::{json, Value};
use std::io::Write;

/// `vh json-grammar --out FILE`: the AST of the CURRENT json.pest as the real reader returns it.
pub fn grammar(args: &[String]) {
    let out = arg(args, "--out").expect("--out");
    let text = std::fs::read_to_string(concat!(env!("CARGO_MANIFEST_DIR"), "/../../../repo/grammars/src/grammars/json.pest")).expect("json.pest");
    let (ast, _) = front_end(&text).expect("json.pest does not pass the front-end");
    let mut w = writer(&out);
    wl(&mut w, &rules_json(&ast));
    w.flush().unwrap();
    println!("{}", json!({"rules": ast.len()}));
}

fn real(input: &str) -> Value {
    let r = guarded(|| JsonParser::parse(Rule::json, input));
    match r {
        Err(m) => json!({"ok": false, "panic": m, "toks": []}),
        Ok(Ok(pairs)) => json!({"ok": true, "panic": "", "toks": pairs_json(pairs, &|r: Rule| format!("{r:?}"))}),
        Ok(Err(_)) => json!({"ok": false, "panic": "", "toks": []}),
    }
}

/// `vh json-replay --cases FILE`
pub fn replay(args: &[String]) {
    silence_panics();
    let path = arg(args, "--cases").expect("--cases");
    let (mut n, mut acc, mut nm) = (0u64, 0u64, 0u64);
    let mut mism = vec![];
    for line in read_lines(&path) {
        let rec: Value = serde_json::from_str(&line).unwrap();
        let inp = from_cps(&rec["inp"]);
        let got = real(&inp);
        n += 1;
        let ok = rec["ok"] == true;
        acc += ok as u64;
        if got["ok"] != rec["ok"] || got["panic"] != "" || (ok && got["toks"] != rec["toks"]) {
            nm += 1;
            if mism.len() < 25 {
                mism.push(json!({"input": inp, "inp": rec["inp"], "rfc_accepts": ok, "expected_tree": rec["toks"], "observed": got}));
            }
        }
    }
    println!("{}", json!({"strings": n, "rfc_valid": acc, "mismatch_count": nm, "mismatches": mism}));
}

fn gen_string(rng: &mut StdRng, o: &mut String) {
    o.push('"');
    for _ in 0..rng.gen_range(0..6) {
        match rng.gen_range(0..14) {
            0 => o.push_str("\\n"),
            1 => o.push_str("\\\""),
            2 => o.push_str("\\\\"),
            3 => o.push_str("\\/"),
            4 => o.push_str(["\\b", "\\f", "\\r", "\\t"][rng.gen_range(0..4)]),
            5 => o.push_str(&format!("\\u{:04x}", rng.gen_range(0..0xffffu32))),
            6 => o.push_str(&format!("\\u{:04X}", rng.gen_range(0..0xffffu32))),
            7 => o.push('é'),
            8 => o.push('😀'),
            9 => o.push('\u{7f}'),
            10 => o.push(' '),
            _ => o.push((b'a' + rng.gen_range(0..26)) as char),
        }
    }
    o.push('"');
}
fn gen_ws(rng: &mut StdRng, o: &mut String) {
    for _ in 0..rng.gen_range(0..3) {
        if rng.gen_bool(0.4) {
            o.push([' ', '\t', '\n', '\r'][rng.gen_range(0..4)]);
        }
    }
}
fn gen_value(rng: &mut StdRng, depth: usize, o: &mut String) {
    let k = if depth >= 8 { rng.gen_range(0..5) } else { rng.gen_range(0..8) };
    match k {
        0 => o.push_str(["true", "false", "null"][rng.gen_range(0..3)]),
        1 | 2 => {
            if rng.gen_bool(0.3) {
                o.push('-');
            }
            if rng.gen_bool(0.2) {
                o.push('0');
            } else {
                o.push_str(&rng.gen_range(1..100000u32).to_string());
            }
            if rng.gen_bool(0.3) {
                o.push_str(&format!(".{}", rng.gen_range(0..1000u32)));
            }
            if rng.gen_bool(0.3) {
                o.push(['e', 'E'][rng.gen_range(0..2)]);
                o.push_str(["", "+", "-"][rng.gen_range(0..3)]);
                o.push_str(&rng.gen_range(0..40u32).to_string());
            }
        }
        3 | 4 => gen_string(rng, o),
        5 | 6 => {
            o.push('[');
            gen_ws(rng, o);
            let n = rng.gen_range(0..4);
            for i in 0..n {
                if i > 0 {
                    gen_ws(rng, o);
                    o.push(',');
                    gen_ws(rng, o);
                }
                gen_value(rng, depth + 1, o);
            }
            gen_ws(rng, o);
            o.push(']');
        }
        _ => {
            o.push('{');
            gen_ws(rng, o);
            let n = rng.gen_range(0..4);
            for i in 0..n {
                if i > 0 {
                    gen_ws(rng, o);
                    o.push(',');
                    gen_ws(rng, o);
                }
                gen_string(rng, o);
                gen_ws(rng, o);
                o.push(':');
                gen_ws(rng, o);
                gen_value(rng, depth + 1, o);
            }
            gen_ws(rng, o);
            o.push('}');
        }
    }
}

/// `vh json-emit --seed S --docs N --out FILE`: valid documents (depth <= 8) and single-edit
/// near-misses of them, parsed by the real JsonParser.
pub fn emit(args: &[String]) {
    silence_panics();
    let seed = arg_u64(args, "--seed", 1);
    let n = arg_u64(args, "--docs", 100);
    let out = arg(args, "--out").expect("--out");
    let mut w = writer(&out);
    let mut rng = StdRng::seed_from_u64(seed);
    let edits = ['0', '1', '-', '+', '.', 'e', ',', ':', '"', '\\', '{', '}', '[', ']', 'a', 'u', ' ', '\n', '\u{1}', '\u{1f}', 'é', '/', 't'];
    let mut id = 0u64;
    let mut emit_one = |s: &str, w: &mut dyn Write, id: &mut u64| {
        *id += 1;
        let got = real(s);
        serde_json::to_writer(&mut *w, &json!({"id": *id, "inp": cps(s), "got": got})).unwrap();
        w.write_all(b"\n").unwrap();
    };
    // long documents: acceptance and the NUMBER of pairs are recorded (the whole tree of thousands of pairs with
    // byte offsets is beyond what TLC re-derives in reasonable time)
    fn count(v: &Value) -> u64 {
        v.as_array().map(|a| a.iter().map(|t| 1 + count(&t["c"])).sum()).unwrap_or(0)
    }
    let emit_long = |s: &str, w: &mut dyn Write, id: &mut u64| {
        *id += 1;
        let mut got = real(s);
        let n = count(&got["toks"]);
        got["toks"] = json!([]);
        serde_json::to_writer(&mut *w, &json!({"id": *id, "inp": cps(s), "got": got, "npairs": n})).unwrap();
        w.write_all(b"\n").unwrap();
    };
    // the documents of the repository's own tests and benches
    for f in ["grammars/tests/examples.json", "grammars/benches/data.json", "grammars/resources/test/jsonfuzzsample1.json"] {
        if let Ok(t) = std::fs::read_to_string(format!("{}/../../../repo/{}", env!("CARGO_MANIFEST_DIR"), f)) {
            if t.chars().count() < 3000 {
                emit_one(&t, &mut w, &mut id);
            }
        }
    }
    // long flat documents: thousands of scalars at depth one or two (a per-scalar cost that adds up - a counter, a
    // buffer - only shows here); `--long 0` leaves them out
    if arg_u64(args, "--long", 0) > 0 {
        let rep = |item: &str, k: usize| format!("[{}]", vec![item; k].join(","));
        let members: Vec<String> = (0..300).map(|i| format!("\"k{}\":[{},true]", i, i)).collect();
        for d in [rep("0", 2100), rep("\"\\n\"", 1050), rep("-1.5e3", 700), format!("{{{}}}", members.join(",")),
                  format!("[{}", rep("0", 2100).trim_start_matches('[').trim_end_matches(']')), rep("[]", 1500), rep("01", 1)] {
            emit_long(&d, &mut w, &mut id);
        }
    }
    for _ in 0..n {
        let mut d = String::new();
        gen_ws(&mut rng, &mut d);
        gen_value(&mut rng, 0, &mut d);
        gen_ws(&mut rng, &mut d);
        if d.chars().count() > 400 {
            continue;
        }
        emit_one(&d, &mut w, &mut id);
        let chars: Vec<char> = d.chars().collect();
        for _ in 0..6 {
            let mut c = chars.clone();
            let p = rng.gen_range(0..=c.len());
            match rng.gen_range(0..3) {
                0 if p < c.len() => {
                    c.remove(p);
                }
                1 if p < c.len() => c[p] = edits[rng.gen_range(0..edits.len())],
                _ => c.insert(p, edits[rng.gen_range(0..edits.len())]),
            }
            emit_one(&c.into_iter().collect::<String>(), &mut w, &mut id);
        }
    }
    w.flush().unwrap();
    println!("{}", json!({"strings": id}));
}
