//! Library part of the verification harness (shared with the generated-parser crates).
pub mod c01;
pub mod c05;
pub mod c06;
pub mod gen;
pub mod peg;
pub mod stack;
pub mod sweep;
pub mod util;
pub mod linecol;
pub mod pratt;
pub mod tt;
pub mod jsonc;
pub mod reader;
pub mod frontend;
pub mod psm;
pub mod bundled;
