//! C10: positions, spans, pairs and errors against the expectations of spec/LineCol.tla,
//! and recording of the same observations on random texts for trace validation.
use crate::util::*;
use pest::error::{Error, ErrorVariant, LineColLocation};
use pest::iterators::PairsBuilder;
use pest::{Position, Span};
use rand::rngs::StdRng;
use rand::{Rng, SeedableRng};
use serde_json::{json, Value};
use std::io::Write;


/// Parses the rendering of an error back into (line number, text, marker column, gutters aligned).
fn parse_display(d: &str) -> Option<(usize, usize, String, Option<usize>, bool)> {
    let rows: Vec<&str> = d.split('\n').collect();
    if rows.len() < 6 {
        return None;
    }
    let head = rows[0].trim_start();
    let lc = head.strip_prefix("--> ")?;
    let mut it = lc.rsplitn(2, ':');
    let c: usize = it.next()?.parse().ok()?;
    let l: usize = it.next()?.rsplit(':').next()?.parse().ok()?;
    let bar2 = rows[2].find(" | ")?;
    let num: usize = rows[2][..bar2].trim().parse().ok()?;
    if num != l {
        return None;
    }
    let text = rows[2][bar2 + 3..].to_string();
    // the underline row is the last row of the form "<spaces> | ..." before the "<spaces> |" row
    let urow = rows.iter().rposition(|r| r.trim_start().starts_with("| ") && r.contains('^'))?;
    let bar3 = rows[urow].find(" | ")?;
    let under = &rows[urow][bar3 + 3..];
    let marker = under.chars().position(|ch| ch == '^');
    // "under the column" is a statement about what one sees: in front of the marker the underline row must have a
    // tab exactly where the line text has one (a tab is as wide as the tab above it) and blanks elsewhere
    let tabs_ok = match marker {
        Some(m) => under.chars().take(m).zip(text.chars().chain(std::iter::repeat(' '))).all(|(u, t)| if t == '\t' { u == '\t' } else { u == ' ' }),
        None => true,
    };
    Some((l, c, text, marker, bar2 == bar3 && tabs_ok))
}

/// The same error rendered through the other routes - with a path in the header, as a parsing error whose rule
/// names go through `renamed_rules` - must show the same line number, column, text and marker (the path and the
/// message themselves are not part of the property and are not judged).
fn variants_agree(plain: &Option<(usize, usize, String, Option<usize>, bool)>, with_path: &str, parsing: &str) -> bool {
    parse_display(with_path) == *plain && parse_display(parsing) == *plain
}

fn pair_lc_builder(s: &str, off: usize) -> Result<(usize, usize), String> {
    guarded(|| {
        // the pair alone; followed by a sibling that lies BEFORE it in the input; as a child reaching past its parent:
        // the builder accepts all three, and a pair's line/column depends on its own position only
        let a = PairsBuilder::<u8>::new(s).rule(1u8, off, off).build().next().unwrap().line_col();
        let b = PairsBuilder::<u8>::new(s).rule(1u8, off, off).rule(2u8, 0, 0).build().next().unwrap().line_col();
        let c = PairsBuilder::<u8>::new(s)
            .rule_with(2u8, 0, 0, |i| i.rule(1u8, off, off))
            .build()
            .next()
            .unwrap()
            .into_inner()
            .next()
            .unwrap()
            .line_col();
        if a == b && b == c {
            a
        } else {
            (0, 0)
        }
    })
}
fn pair_lc_parse(s: &str, nchars: usize) -> Result<(usize, usize), String> {
    guarded(|| {
        let mut ps = pest::state::<u8, _>(s, |st| st.skip(nchars).and_then(|st| st.rule(1u8, |st| Ok(st)))).unwrap();
        ps.next().unwrap().line_col()
    })
}

/// All observations at one boundary offset.
fn observe_pos(s: &str, off: usize, nchars: usize) -> Value {
    let r = guarded(|| {
        let p = Position::new(s, off).unwrap();
        let lc = p.line_col();
        let text = p.line_of().to_string();
        let e: Error<u8> = Error::new_from_pos(ErrorVariant::CustomError { message: "m".into() }, p);
        let elc = match e.line_col { LineColLocation::Pos(x) => x, LineColLocation::Span(x, _) => x };
        let from = match LineColLocation::from(p) { LineColLocation::Pos(x) => x, LineColLocation::Span(x, _) => x };
        let disp = e.to_string();
        let dpath = e.clone().with_path("dir/f.rs").to_string();
        let e2: Error<u8> = Error::new_from_pos(ErrorVariant::ParsingError { positives: vec![1, 2, 3], negatives: vec![9] }, p);
        let dpars = e2.renamed_rules(|r| format!("r{}", r)).to_string();
        (lc, text, elc, from, e.line().to_string(), disp, dpath, dpars)
    });
    match r {
        Err(m) => json!({"off": off, "panic": m}),
        Ok((lc, text, elc, from, eline, disp, dpath, dpars)) => {
            let pb = pair_lc_builder(s, off);
            let pp = pair_lc_parse(s, nchars);
            let pd = parse_display(&disp);
            let routes = variants_agree(&pd, &dpath, &dpars);
            json!({"off": off, "panic": "", "line": lc.0, "col": lc.1, "text": cps(&text),
                   "err_line": elc.0, "err_col": elc.1, "from_line": from.0, "from_col": from.1,
                   "pair_builder": match &pb { Ok(x) => json!([x.0, x.1]), Err(_) => json!([0, 0]) },
                   "pair_parse": match &pp { Ok(x) => json!([x.0, x.1]), Err(_) => json!([0, 0]) },
                   "pair_panic": format!("{}{}", pb.as_ref().err().cloned().unwrap_or_default(), pp.as_ref().err().cloned().unwrap_or_default()),
                   "err_text": cps(&eline),
                   "disp_ok": pd.is_some() && routes,
                   "disp_line": pd.as_ref().map(|x| x.0).unwrap_or(0), "disp_col": pd.as_ref().map(|x| x.1).unwrap_or(0),
                   "disp_text": pd.as_ref().map(|x| cps(&x.2)).unwrap_or_default(),
                   "disp_marker": pd.as_ref().and_then(|x| x.3).map(|m| m + 1).unwrap_or(0),
                   "disp_aligned": pd.as_ref().map(|x| x.4).unwrap_or(false)})
        }
    }
}

/// The span algebra at [a, b): start / end / as_str / split, Position::span, Span::get on every relative byte range
/// (short texts only: in-range and out-of-range, on and off character boundaries) and merge_spans with a few
/// other spans of the same text.
fn span_algebra(s: &str, a: usize, b: usize) -> Value {
    let r = guarded(|| {
        let sp = Span::new(s, a, b).unwrap();
        let (p, q) = sp.split();
        let ps = Position::new(s, a).unwrap().span(&Position::new(s, b).unwrap());
        let mut gets = vec![];
        if s.len() <= 8 {
            for i in 0..=(b - a + 1) {
                for j in 0..=(b - a + 2) {
                    let r = match sp.get(i..j) {
                        Some(x) => json!([x.start(), x.end()]),
                        None => json!([]),
                    };
                    gets.push(json!({"i": i, "j": j, "r": r}));
                }
            }
        }
        let mut merges = vec![];
        for (c, d) in [(0, a), (b, s.len()), (0, 0), (s.len(), s.len()), (a, b), (0, s.len())] {
            if let Some(other) = Span::new(s, c, d) {
                let r = match pest::merge_spans(&sp, &other) {
                    Some(x) => json!([x.start(), x.end()]),
                    None => json!([]),
                };
                merges.push(json!({"c": c, "d": d, "r": r}));
            }
        }
        json!({"start": sp.start(), "end": sp.end(), "str": cps(sp.as_str()), "split": [p.pos(), q.pos()],
               "pspan": [ps.start(), ps.end()], "gets": gets, "merges": merges})
    });
    match r {
        Ok(v) => v,
        Err(m) => json!({"start": 0, "end": 0, "str": [], "split": [], "pspan": [], "gets": [], "merges": [], "panic": m}),
    }
}

fn observe_span(s: &str, a: usize, b: usize) -> Value {
    let r = guarded(|| {
        let sp = Span::new(s, a, b).unwrap();
        let ls: Vec<(usize, usize)> = sp.lines_span().map(|x| (x.start(), x.end())).collect();
        let lstr: Vec<String> = sp.lines().map(|x| x.to_string()).collect();
        let mut strs_ok = lstr.len() == ls.len() && ls.iter().zip(&lstr).all(|((x, y), t)| &s[*x..*y] == t);
        // the other ways of walking the same lines must agree with the collected ones
        strs_ok &= sp.lines_span().last().map(|x| (x.start(), x.end())) == ls.last().copied();
        strs_ok &= sp.lines().last().map(|x| x.to_string()) == lstr.last().cloned();
        strs_ok &= sp.lines_span().count() == ls.len() && sp.lines().count() == ls.len();
        for k in 0..=ls.len() {
            strs_ok &= sp.lines_span().nth(k).map(|x| (x.start(), x.end())) == ls.get(k).copied();
            let mut it = sp.lines_span();
            for _ in 0..k {
                it.next();
            }
            strs_ok &= it.last().map(|x| (x.start(), x.end())) == if k < ls.len() { ls.last().copied() } else { None };
        }
        let e: Error<u8> = Error::new_from_span(ErrorVariant::CustomError { message: "m".into() }, sp);
        let (slc, elc) = match e.line_col { LineColLocation::Span(x, y) => (x, y), LineColLocation::Pos(x) => (x, x) };
        let disp = e.to_string();
        let dpath = e.clone().with_path("dir/f.rs").to_string();
        let e2: Error<u8> = Error::new_from_span(ErrorVariant::ParsingError { positives: vec![1, 2, 3], negatives: vec![9] }, sp);
        let dpars = e2.renamed_rules(|r| format!("r{}", r)).to_string();
        (ls, strs_ok, slc, elc, disp, e.line().to_string(), dpath, dpars)
    });
    match r {
        Err(m) => json!({"a": a, "b": b, "panic": m}),
        Ok((ls, strs_ok, slc, elc, disp, eline, dpath, dpars)) => {
            let pd = parse_display(&disp);
            let routes = variants_agree(&pd, &dpath, &dpars);
            json!({"a": a, "b": b, "panic": "", "alg": span_algebra(s, a, b), "lines": ls.iter().map(|(x, y)| json!([x, y])).collect::<Vec<_>>(),
                   "strs_ok": strs_ok, "sline": slc.0, "scol": slc.1, "eline": elc.0, "ecol": elc.1,
                   "err_text": cps(&eline),
                   "disp_ok": pd.is_some() && routes, "disp_line": pd.as_ref().map(|x| x.0).unwrap_or(0),
                   "disp_col": pd.as_ref().map(|x| x.1).unwrap_or(0),
                   "disp_text": pd.as_ref().map(|x| cps(&x.2)).unwrap_or_default(),
                   "disp_marker": pd.as_ref().and_then(|x| x.3).map(|m| m + 1).unwrap_or(0),
                   "disp_aligned": pd.as_ref().map(|x| x.4).unwrap_or(false)})
        }
    }
}

fn observe_text(s: &str, all_pairs: bool, rng: Option<&mut StdRng>) -> Value {
    let len = s.len();
    let some: Vec<usize> = (0..=len + 2).filter(|o| guarded(|| Position::new(s, *o).is_some()).unwrap_or(false)).collect();
    let bounds: Vec<usize> = s.char_indices().map(|(i, _)| i).chain(std::iter::once(len)).collect();
    let mut pos = vec![];
    let mut spans = vec![];
    let mut bad_spans = 0;
    match rng {
        None => {
            for (k, o) in bounds.iter().enumerate() {
                pos.push(observe_pos(s, *o, k));
            }
            if all_pairs {
                for a in &bounds {
                    for b in &bounds {
                        if a <= b {
                            spans.push(observe_span(s, *a, *b));
                        } else if guarded(|| Span::new(s, *a, *b).is_some()).unwrap_or(true) {
                            bad_spans += 1;
                        }
                    }
                }
            }
        }
        Some(rng) => {
            for _ in 0..6 {
                let k = rng.gen_range(0..bounds.len());
                pos.push(observe_pos(s, bounds[k], k));
                let j = rng.gen_range(k..bounds.len());
                spans.push(observe_span(s, bounds[k], bounds[j]));
                if j > k && guarded(|| Span::new(s, bounds[j], bounds[k]).is_some()).unwrap_or(true) {
                    bad_spans += 1;
                }
            }
            let k = bounds.len() - 1;
            pos.push(observe_pos(s, bounds[k], k));
        }
    }
    // non-boundary offsets must not yield spans either
    for o in 0..=len + 1 {
        if !bounds.contains(&o) && guarded(|| Span::new(s, o, len.max(o)).is_some() || Span::new(s, 0, o).is_some()).unwrap_or(true) {
            bad_spans += 1;
        }
    }
    json!({"s": cps(s), "position_some": some, "pos": pos, "spans": spans, "bad_spans_accepted": bad_spans})
}

/// `vh lc-observe --cases FILE --out FILE`: texts from TLC (records with field s); observes everything.
/// `vh lc-observe --seed S --texts N --out FILE`: random texts, sampled offsets.
pub fn observe(args: &[String]) {
    silence_panics();
    let out = arg(args, "--out").expect("--out");
    let mut w = writer(&out);
    let mut n = 0u64;
    let mut npos = 0u64;
    if let Some(cases) = arg(args, "--cases") {
        for line in read_lines(&cases) {
            let rec: Value = serde_json::from_str(&line).unwrap();
            let s = from_cps(&rec["s"]);
            let o = observe_text(&s, s.chars().count() <= 8, None);
            npos += o["pos"].as_array().unwrap().len() as u64 + o["spans"].as_array().unwrap().len() as u64;
            n += 1;
            wl(&mut w, &json!({"id": n, "exp": rec, "obs": o}));
        }
    } else {
        let seed = arg_u64(args, "--seed", 1);
        let texts = arg_u64(args, "--texts", 100);
        let mut rng = StdRng::seed_from_u64(seed);
        let alpha = ['a', 'b', ' ', '\n', '\n', '\r', '\t', 'é', '€', '😀', '\u{2028}', '\n'];
        for _ in 0..texts {
            let len = rng.gen_range(0..200);
            let mut s = String::new();
            for _ in 0..len {
                if rng.gen_bool(0.08) {
                    s.push_str("\r\n");
                } else {
                    s.push(alpha[rng.gen_range(0..alpha.len())]);
                }
            }
            let o = observe_text(&s, false, Some(&mut rng));
            npos += o["pos"].as_array().unwrap().len() as u64 + o["spans"].as_array().unwrap().len() as u64;
            n += 1;
            wl(&mut w, &json!({"id": n, "obs": o}));
        }
    }
    w.flush().unwrap();
    println!("{}", json!({"texts": n, "observations": npos}));
}
