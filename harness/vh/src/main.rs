//! Verification harness for pest: drives the real implementation for the TLA+ conformance
//! checks of /verif (see DESIGN.md).  `vh <subcommand> [--key value]...`
mod stack;
mod util;

fn main() {
    let args: Vec<String> = std::env::args().collect();
    let sub = args.get(1).map(|s| s.as_str()).unwrap_or("");
    let rest = &args[1..];
    match sub {
        "stack-replay" => stack::replay(rest),
        "stack-emit" => stack::emit(rest),
        _ => {
            eprintln!("unknown subcommand {sub:?}");
            std::process::exit(2);
        }
    }
}
