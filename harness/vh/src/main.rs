//! Verification harness for pest: drives the real implementation for the TLA+ conformance
//! checks of /verif (see DESIGN.md).  `vh <subcommand> [--key value]...`
use vh::*;

/// Runs `f` on a thread with a 2 GB stack (deeply recursive grammars must not abort the harness).
fn big_stack(f: impl FnOnce() + Send + 'static) {
    std::thread::Builder::new()
        .stack_size(2 << 30)
        .spawn(f)
        .unwrap()
        .join()
        .unwrap_or_else(|_| std::process::exit(3));
}

fn main() {
    let args: Vec<String> = std::env::args().collect();
    let sub = args.get(1).map(|s| s.as_str()).unwrap_or("");
    let rest = &args[1..];
    let rest2: Vec<String> = rest.to_vec();
    match sub {
        "c01-emit" => big_stack(move || c01::emit(&rest2)),
        "c05-emit" => big_stack(move || c05::emit(&rest2)),
        "c12-emit" => big_stack(move || sweep::c12(&rest2)),
        "c15-emit" => big_stack(move || sweep::c15(&rest2)),
        "entries-emit" => big_stack(move || sweep::entries(&rest2)),
        "bundled-emit" => big_stack(move || bundled::emit(&rest2)),
        "streams-emit" => big_stack(move || sweep::streams(&rest2)),
        "c06-replay" => big_stack(move || c06::replay(&rest2)),
        "c06-emit" => big_stack(move || c06::emit(&rest2)),
        "grammar-list" => big_stack(move || c01::grammar_list(&rest2)),
        "lc-observe" => linecol::observe(rest),
        "pratt-replay" => pratt::replay(rest),
        "pratt-emit" => pratt::emit(rest),
        "tt-observe" => big_stack(move || tt::observe_cmd(&rest2)),
        "json-grammar" => jsonc::grammar(rest),
        "json-replay" => big_stack(move || jsonc::replay(&rest2)),
        "json-emit" => big_stack(move || jsonc::emit(&rest2)),
        "unicode-names" => c01::unicode_names(rest),
        "reader-replay" => big_stack(move || reader::replay(&rest2)),
        "reader-respell" => big_stack(move || reader::respell(&rest2)),
        "fe-run" => big_stack(move || frontend::run(&rest2)),
        "psm-replay" => big_stack(move || psm::replay(&rest2)),
        "psm-emit" => big_stack(move || psm::emit(&rest2)),
        "c01-replay" => big_stack(move || c01::replay(&rest2)),
        "stack-replay" => stack::replay(rest),
        "stack-emit" => stack::emit(rest),
        _ => {
            eprintln!("unknown subcommand {sub:?}");
            std::process::exit(2);
        }
    }
}
