//! Grammar-level glue shared by C01/C02/C05/C06/C08/C12/C15: JSON export of the real ASTs,
//! a printer from the JSON expression format to pest syntax, token-tree export, and the
//! VM runner.  The JSON expression format is the one of DESIGN.md appendix A and of
//! spec/PegSemantics.tla.
use crate::util::*;
use pest::iterators::{Pair, Pairs};
use pest_meta::ast::{Expr, Rule as AstRule, RuleType};
use pest_meta::optimizer::{OptimizedExpr, OptimizedRule};
use serde_json::{json, Map, Value};

pub fn ty_str(t: RuleType) -> &'static str {
    match t {
        RuleType::Normal => "",
        RuleType::Silent => "_",
        RuleType::Atomic => "@",
        RuleType::CompoundAtomic => "$",
        RuleType::NonAtomic => "!",
    }
}

fn first_cp(s: &str) -> u32 {
    s.chars().next().map(|c| c as u32).unwrap_or(0)
}

pub fn expr_json(e: &Expr) -> Value {
    match e {
        Expr::Str(s) => json!({"t": "str", "s": cps(s)}),
        Expr::Insens(s) => json!({"t": "ins", "s": cps(s)}),
        Expr::Range(a, b) => json!({"t": "range", "lo": first_cp(a), "hi": first_cp(b)}),
        Expr::Ident(n) => json!({"t": "id", "n": n}),
        Expr::PeekSlice(lo, hi) => {
            json!({"t": "peek", "lo": lo, "hi": hi.unwrap_or(0), "open": hi.is_none()})
        }
        Expr::PosPred(a) => json!({"t": "and", "a": expr_json(a)}),
        Expr::NegPred(a) => json!({"t": "not", "a": expr_json(a)}),
        Expr::Seq(a, b) => json!({"t": "seq", "a": expr_json(a), "b": expr_json(b)}),
        Expr::Choice(a, b) => json!({"t": "alt", "a": expr_json(a), "b": expr_json(b)}),
        Expr::Opt(a) => json!({"t": "opt", "a": expr_json(a)}),
        Expr::Rep(a) => json!({"t": "rep", "a": expr_json(a)}),
        Expr::RepOnce(a) => json!({"t": "rep1", "a": expr_json(a)}),
        Expr::RepExact(a, n) => json!({"t": "exact", "a": expr_json(a), "n": n}),
        Expr::RepMin(a, n) => json!({"t": "min", "a": expr_json(a), "n": n}),
        Expr::RepMax(a, n) => json!({"t": "max", "a": expr_json(a), "n": n}),
        Expr::RepMinMax(a, m, n) => json!({"t": "minmax", "a": expr_json(a), "m": m, "n": n}),
        Expr::Skip(ss) => json!({"t": "skip", "ss": ss.iter().map(|s| cps(s)).collect::<Vec<_>>()}),
        Expr::Push(a) => json!({"t": "push", "a": expr_json(a)}),
        #[cfg(feature = "extras")]
        Expr::PushLiteral(s) => json!({"t": "pushlit", "s": cps(s)}),
        #[cfg(feature = "extras")]
        Expr::NodeTag(a, tag) => json!({"t": "tag", "a": expr_json(a), "tag": tag}),
    }
}

pub fn opt_json(e: &OptimizedExpr) -> Value {
    match e {
        OptimizedExpr::Str(s) => json!({"t": "str", "s": cps(s)}),
        OptimizedExpr::Insens(s) => json!({"t": "ins", "s": cps(s)}),
        OptimizedExpr::Range(a, b) => json!({"t": "range", "lo": first_cp(a), "hi": first_cp(b)}),
        OptimizedExpr::Ident(n) => json!({"t": "id", "n": n}),
        OptimizedExpr::PeekSlice(lo, hi) => {
            json!({"t": "peek", "lo": lo, "hi": hi.unwrap_or(0), "open": hi.is_none()})
        }
        OptimizedExpr::PosPred(a) => json!({"t": "and", "a": opt_json(a)}),
        OptimizedExpr::NegPred(a) => json!({"t": "not", "a": opt_json(a)}),
        OptimizedExpr::Seq(a, b) => json!({"t": "seq", "a": opt_json(a), "b": opt_json(b)}),
        OptimizedExpr::Choice(a, b) => json!({"t": "alt", "a": opt_json(a), "b": opt_json(b)}),
        OptimizedExpr::Opt(a) => json!({"t": "opt", "a": opt_json(a)}),
        OptimizedExpr::Rep(a) => json!({"t": "rep", "a": opt_json(a)}),
        #[cfg(feature = "extras")]
        OptimizedExpr::RepOnce(a) => json!({"t": "rep1", "a": opt_json(a)}),
        OptimizedExpr::Skip(ss) => {
            json!({"t": "skip", "ss": ss.iter().map(|s| cps(s)).collect::<Vec<_>>()})
        }
        OptimizedExpr::Push(a) => json!({"t": "push", "a": opt_json(a)}),
        #[cfg(feature = "extras")]
        OptimizedExpr::PushLiteral(s) => json!({"t": "pushlit", "s": cps(s)}),
        #[cfg(feature = "extras")]
        OptimizedExpr::NodeTag(a, tag) => json!({"t": "tag", "a": opt_json(a), "tag": tag}),
        OptimizedExpr::RestoreOnErr(a) => json!({"t": "restore", "a": opt_json(a)}),
    }
}

pub fn rules_json(rules: &[AstRule]) -> Value {
    let mut m = Map::new();
    for r in rules {
        m.insert(r.name.clone(), json!({"ty": ty_str(r.ty), "e": expr_json(&r.expr)}));
    }
    Value::Object(m)
}

pub fn opt_rules_json(rules: &[OptimizedRule]) -> Value {
    let mut m = Map::new();
    for r in rules {
        m.insert(r.name.clone(), json!({"ty": ty_str(r.ty), "e": opt_json(&r.expr)}));
    }
    Value::Object(m)
}

// ------------------------------------------------------------------------------------------
// printer: JSON expression -> pest syntax (fully parenthesised; C07 checks the reader
// against what was meant, so this printer is cross-checked there)

pub fn esc_str(v: &Value, quote: char) -> String {
    let mut o = String::new();
    for c in v.as_array().unwrap() {
        let c = char::from_u32(c.as_u64().unwrap() as u32).unwrap();
        match c {
            '"' if quote == '"' => o.push_str("\\\""),
            '\'' if quote == '\'' => o.push_str("\\'"),
            '\\' => o.push_str("\\\\"),
            '\n' => o.push_str("\\n"),
            '\r' => o.push_str("\\r"),
            '\t' => o.push_str("\\t"),
            c if (c as u32) < 32 || (c as u32) == 127 => o.push_str(&format!("\\u{{{:02x}}}", c as u32)),
            c => o.push(c),
        }
    }
    o
}

pub fn expr_text(e: &Value) -> String {
    let t = e["t"].as_str().unwrap();
    let a = || expr_text(&e["a"]);
    match t {
        "str" => format!("\"{}\"", esc_str(&e["s"], '"')),
        "ins" => format!("^\"{}\"", esc_str(&e["s"], '"')),
        "range" => format!(
            "'{}'..'{}'",
            esc_str(&json!([e["lo"]]), '\''),
            esc_str(&json!([e["hi"]]), '\'')
        ),
        "id" => e["n"].as_str().unwrap().to_string(),
        "peek" => {
            if e["open"].as_bool().unwrap_or(false) {
                format!("PEEK[{}..]", e["lo"])
            } else {
                format!("PEEK[{}..{}]", e["lo"], e["hi"])
            }
        }
        "and" => format!("&({})", a()),
        "not" => format!("!({})", a()),
        "seq" => format!("(({}) ~ ({}))", a(), expr_text(&e["b"])),
        "alt" => format!("(({}) | ({}))", a(), expr_text(&e["b"])),
        "opt" => format!("({})?", a()),
        "rep" => format!("({})*", a()),
        "rep1" => format!("({})+", a()),
        "exact" => format!("({}){{{}}}", a(), e["n"]),
        "min" => format!("({}){{{},}}", a(), e["n"]),
        "max" => format!("({}){{,{}}}", a(), e["n"]),
        "minmax" => format!("({}){{{},{}}}", a(), e["m"], e["n"]),
        "push" => format!("PUSH({})", a()),
        "pushlit" => format!("PUSH_LITERAL(\"{}\")", esc_str(&e["s"], '"')),
        "tag" => format!("(#{} = ({}))", e["tag"].as_str().unwrap(), a()),
        _ => panic!("harness: cannot print expression kind {t}"),
    }
}

/// Prints a grammar given as {name: {ty, e}}; rule order: `order` if given, else map order.
pub fn grammar_text(g: &Value, order: Option<&Vec<String>>) -> String {
    let m = g.as_object().unwrap();
    let names: Vec<String> = match order {
        Some(o) => o.clone(),
        None => m.keys().cloned().collect(),
    };
    let mut o = String::new();
    for n in names {
        let r = &m[&n];
        o.push_str(&format!(
            "{} = {}{{ {} }}\n",
            n,
            r["ty"].as_str().unwrap(),
            expr_text(&r["e"])
        ));
    }
    o
}

// ------------------------------------------------------------------------------------------
// token trees and outcomes

pub fn pair_json<R: pest::RuleType>(p: Pair<'_, R>, name: &dyn Fn(R) -> String, depth: usize) -> Value {
    let sp = p.as_span();
    // node tags exist only with grammar-extras and are outside what C01 / C05 state: not exported there
    let tag = if EXTRAS { String::new() } else { p.as_node_tag().unwrap_or("").to_string() };
    let r = name(p.as_rule());
    let (s, e) = (sp.start(), sp.end());
    let kids: Vec<Value> = if depth > 200 {
        vec![json!("<deep>")]
    } else {
        p.into_inner().map(|c| pair_json(c, name, depth + 1)).collect()
    };
    json!({"r": r, "s": s, "e": e, "tag": tag, "c": kids})
}

pub fn pairs_json<R: pest::RuleType>(ps: Pairs<'_, R>, name: &dyn Fn(R) -> String) -> Value {
    Value::Array(ps.map(|p| pair_json(p, name, 0)).collect())
}

/// Result of a parse as the observable outcome record of appendix A.
pub fn outcome_json<R: pest::RuleType>(
    r: Result<Result<Pairs<'_, R>, pest::error::Error<R>>, String>,
    name: &dyn Fn(R) -> String,
) -> Value {
    match r {
        Err(msg) => json!({"k": "panic", "msg": msg.chars().take(200).collect::<String>(),
                           "empty_stack": msg.contains("called on empty stack")}),
        // walking the pairs is code under test too: a token stream that cannot be walked is an outcome, not a crash
        Ok(Ok(pairs)) => match std::panic::catch_unwind(std::panic::AssertUnwindSafe(|| pairs_json(pairs, name))) {
            Ok(toks) => json!({"k": "ok", "toks": toks}),
            Err(_) => json!({"k": "panic", "msg": "walking the returned pairs panicked", "empty_stack": false}),
        },
        Ok(Err(e)) => {
            let pos = match e.location {
                pest::error::InputLocation::Pos(p) => p,
                pest::error::InputLocation::Span((s, _)) => s,
            };
            match &e.variant {
                pest::error::ErrorVariant::ParsingError { positives, negatives } => json!({
                    "k": "fail", "pos": pos,
                    // strictly increasing in the rule type's own order = sorted without duplicates
                    "sorted": positives.windows(2).all(|w| w[0] < w[1]) && negatives.windows(2).all(|w| w[0] < w[1]),
                    "positives": positives.iter().map(|r| name(*r)).collect::<Vec<_>>(),
                    "negatives": negatives.iter().map(|r| name(*r)).collect::<Vec<_>>()}),
                pest::error::ErrorVariant::CustomError { message } => {
                    if message == "call limit reached" {
                        json!({"k": "calllimit", "pos": pos})
                    } else {
                        json!({"k": "custom", "msg": message, "pos": pos})
                    }
                }
            }
        }
    }
}

/// Adds what hook H1 saw at the end of the parse: final position, final stack, counted calls.
pub fn add_final_view(mut o: Value) -> Value {
    if let Some(v) = pest::verif::take_last() {
        let m = o.as_object_mut().unwrap();
        if v.ok {
            m.insert("end".into(), json!(v.pos));
            m.insert("stk".into(), json!(v.stack.iter().map(|s| cps(s)).collect::<Vec<_>>()));
        }
        m.insert("calls".into(), json!(v.calls));
        m.insert("limit_reached".into(), json!(v.limit_reached));
    }
    o
}

pub fn tok_depth(v: &Value) -> usize {
    match v {
        Value::Array(a) => a.iter().map(tok_depth).max().unwrap_or(0),
        Value::Object(m) => 1 + m.get("c").map(tok_depth).unwrap_or(0),
        _ => 0,
    }
}

pub fn run_vm(vm: &pest_vm::Vm, start: &str, input: &str) -> Value {
    let _ = pest::verif::take_last();
    let r = guarded(|| vm.parse(start, input));
    add_final_view(outcome_json(r, &|r: &str| r.to_string()))
}

/// `run_vm` on a fresh VM in a thread of its own, given up after `secs` seconds (None = it did not return).
/// Used where a parse that is known to finish under a call limit is repeated WITHOUT one: should that run
/// not return, the harness must be able to say so instead of hanging.  The thread is left behind.
pub fn run_vm_watchdog(text: &str, start: &str, input: &str, secs: u64) -> Option<Value> {
    let (tx, rx) = std::sync::mpsc::channel();
    let (text, start, input) = (text.to_string(), start.to_string(), input.to_string());
    std::thread::Builder::new()
        .stack_size(256 << 20)
        .spawn(move || {
            if let Ok(Ok((_, opt))) = guarded(|| front_end(&text)) {
                let vm = pest_vm::Vm::new(opt);
                let _ = tx.send(run_vm(&vm, &start, &input));
            }
        })
        .ok()?;
    rx.recv_timeout(std::time::Duration::from_secs(secs)).ok()
}

/// The real front-end on a grammar text: Ok((source rules, optimized rules)) or the rendered errors.
pub fn front_end(text: &str) -> Result<(Vec<AstRule>, Vec<OptimizedRule>), Vec<String>> {
    use pest_meta::parser::{self, Rule};
    let pairs = parser::parse(Rule::grammar_rules, text).map_err(|e| vec![e.to_string()])?;
    pest_meta::validator::validate_pairs(pairs.clone())
        .map_err(|es| es.iter().map(|e| e.to_string()).collect::<Vec<_>>())?;
    let ast = parser::consume_rules(pairs).map_err(|es| es.iter().map(|e| e.to_string()).collect::<Vec<_>>())?;
    let opt = pest_meta::optimizer::optimize(ast.clone());
    Ok((ast, opt))
}

pub const EXTRAS: bool = cfg!(feature = "extras");

// ------------------------------------------------------------------------------------------
// the optimizer pipeline recomposed from its passes (hook H3), optionally leaving one out

pub const PASSES: [&str; 7] = ["rotate", "skip", "unroll", "concatenate", "factor", "list", "restore_on_err"];

/// Applies the `Expr -> Expr` passes up to and including `upto` (exclusive of those in `without`).
pub fn expr_passes(rules: Vec<AstRule>, upto: &str, without: &[&str]) -> Vec<AstRule> {
    use pest_meta::optimizer::verif as v;
    let map = v::expr_map(&rules);
    let mut rs = rules;
    for p in ["rotate", "skip", "unroll", "concatenate", "factor", "list"] {
        if !without.contains(&p) {
            rs = rs
                .into_iter()
                .map(|r| match p {
                    "rotate" => v::rotate(r),
                    "skip" => v::skip(r, &map),
                    "unroll" => v::unroll(r),
                    "concatenate" => v::concatenate(r),
                    "factor" => v::factor(r),
                    _ => v::list(r),
                })
                .collect();
        }
        if p == upto {
            break;
        }
    }
    rs
}

pub fn finish_pipeline(rules: Vec<AstRule>, without: &[&str]) -> Vec<OptimizedRule> {
    use pest_meta::optimizer::verif as v;
    let conv: Vec<OptimizedRule> = rules.into_iter().map(v::convert).collect();
    if without.contains(&"restore_on_err") {
        return conv;
    }
    let map = v::optimized_map(&conv);
    conv.into_iter().map(|r| v::restore_on_err(r, &map)).collect()
}

/// The whole pipeline without the named passes.
pub fn optimize_without(rules: Vec<AstRule>, without: &[&str]) -> Vec<OptimizedRule> {
    finish_pipeline(expr_passes(rules, "list", without), without)
}

/// Does the input of the `list` pass contain the shape `(x ~ y)* ~ x` (the known lister finding)?
pub fn has_lister_shape(rules: &[AstRule]) -> bool {
    fn walk(e: &Expr) -> bool {
        if let Expr::Seq(l, r) = e {
            if let Expr::Rep(inner) = &**l {
                if let Expr::Seq(l1, _) = &**inner {
                    // after rotation `r` is either x or x ~ rest
                    if **l1 == **r {
                        return true;
                    }
                }
            }
        }
        match e {
            Expr::PosPred(a) | Expr::NegPred(a) | Expr::Opt(a) | Expr::Rep(a) | Expr::RepOnce(a)
            | Expr::RepExact(a, _) | Expr::RepMin(a, _) | Expr::RepMax(a, _) | Expr::RepMinMax(a, _, _)
            | Expr::Push(a) => walk(a),
            #[cfg(feature = "extras")]
            Expr::NodeTag(a, _) => walk(a),
            Expr::Seq(a, b) | Expr::Choice(a, b) => walk(a) || walk(b),
            _ => false,
        }
    }
    rules.iter().any(|r| walk(&r.expr))
}

/// Runs a derived parser (generated code) by rule *name*; used by the generated crates.
pub fn run_gen<P: pest::Parser<R>, R: pest::RuleType>(all: &[R], rule: &str, input: &str) -> Value {
    let _ = pest::verif::take_last();
    let r = match all.iter().find(|r| format!("{r:?}") == rule) {
        Some(r) => *r,
        None => return json!({"k": "norule"}),
    };
    let res = guarded(|| P::parse(r, input));
    add_final_view(outcome_json(res, &|r: R| format!("{r:?}")))
}
