//! C13: operator tables and token sequences on the real PrattParser, ConstPrattParser and
//! (deprecated) PrecClimber.
#![allow(deprecated)]
use crate::util::*;
use pest::iterators::{Pair, Pairs, PairsBuilder};
use pest::pratt_parser::{Assoc, ConstPrattParser, Op, PrattParser};
use pest::prec_climber::{self, Operator, PrecClimber};
use rand::rngs::StdRng;
use rand::{Rng, SeedableRng};
use serde_json::{json, Value};
use std::io::Write;

type Tab = Vec<(String, u32)>; // operator id k (1-based) -> (affix, level)

fn table_of(v: &Value) -> Tab {
    v.as_array()
        .unwrap()
        .iter()
        .map(|e| (e["affix"].as_str().unwrap().to_string(), e["lvl"].as_u64().unwrap() as u32))
        .collect()
}

fn mk_op(k: usize, affix: &str) -> Op<u8> {
    match affix {
        "pre" => Op::prefix(k as u8),
        "post" => Op::postfix(k as u8),
        "inl" => Op::infix(k as u8, Assoc::Left),
        _ => Op::infix(k as u8, Assoc::Right),
    }
}

fn levels(t: &Tab) -> Vec<Vec<usize>> {
    let max = t.iter().map(|e| e.1).max().unwrap_or(0);
    (1..=max)
        .map(|l| (0..t.len()).filter(|i| t[*i].1 == l).map(|i| i + 1).collect::<Vec<_>>())
        .filter(|v: &Vec<usize>| !v.is_empty())
        .collect()
}

fn pairs_of<'i>(input: &'i str, toks: &[u8]) -> Pairs<'i, u8> {
    let mut b = PairsBuilder::<u8>::new(input);
    for (i, t) in toks.iter().enumerate() {
        b = b.rule(*t, i, i + 1);
    }
    b.build()
}

fn pos(p: &Pair<'_, u8>) -> usize {
    p.as_span().start() + 1
}

macro_rules! run_map {
    ($parser:expr, $pairs:expr) => {
        $parser
            .map_primary(|p: Pair<'_, u8>| json!({"t": "n", "p": pos(&p)}))
            .map_prefix(|op: Pair<'_, u8>, a: Value| json!({"t": "pre", "k": op.as_rule(), "p": pos(&op), "a": a}))
            .map_postfix(|a: Value, op: Pair<'_, u8>| json!({"t": "post", "k": op.as_rule(), "p": pos(&op), "a": a}))
            .map_infix(|a: Value, op: Pair<'_, u8>, b: Value| json!({"t": "in", "k": op.as_rule(), "p": pos(&op), "a": a, "b": b}))
            .parse($pairs)
    };
    // one map used for two parses in a row (a map may be reused): the answers must be the same
    ($parser:expr, $pairs:expr, twice) => {{
        let mut m = $parser
            .map_primary(|p: Pair<'_, u8>| json!({"t": "n", "p": pos(&p)}))
            .map_prefix(|op: Pair<'_, u8>, a: Value| json!({"t": "pre", "k": op.as_rule(), "p": pos(&op), "a": a}))
            .map_postfix(|a: Value, op: Pair<'_, u8>| json!({"t": "post", "k": op.as_rule(), "p": pos(&op), "a": a}))
            .map_infix(|a: Value, op: Pair<'_, u8>, b: Value| json!({"t": "in", "k": op.as_rule(), "p": pos(&op), "a": a, "b": b}));
        let first = m.parse($pairs.clone());
        // the second time through an iterator adaptor whose size_hint is inexact (the usual `pairs.filter(..)`)
        let second = m.parse($pairs.filter(|_| true));
        if first == second {
            second
        } else {
            json!({"t": "reuse", "first": first, "second": second})
        }
    }};
}

/// `a | b | c ...` for the members of one level, associated in one of three ways (the table is the same
/// whichever way the chain was put together): 0 = left-nested, 1 = right-nested, 2 = balanced.
fn chain<T: std::ops::BitOr<Output = T>>(mut items: Vec<T>, shape: usize) -> T {
    match shape % 3 {
        0 => {
            let mut it = items.into_iter();
            let first = it.next().unwrap();
            it.fold(first, |a, b| a | b)
        }
        1 => {
            let last = items.pop().unwrap();
            items.into_iter().rev().fold(last, |acc, x| x | acc)
        }
        _ => {
            if items.len() == 1 {
                return items.pop().unwrap();
            }
            let right = items.split_off(items.len() / 2);
            chain(items, 2) | chain(right, 2)
        }
    }
}

fn run_pratt(t: &Tab, toks: &[u8]) -> Result<Value, String> {
    let input = "x".repeat(toks.len());
    guarded(|| {
        let mut p = PrattParser::<u8>::new();
        for lv in levels(t) {
            let op = chain(lv.iter().map(|k| mk_op(*k, &t[*k - 1].0)).collect(), toks.len() + t.len());
            p = p.op(op);
        }
        run_map!(p, pairs_of(&input, toks), twice)
    })
}

fn const_run<const N: usize>(ops: Vec<(Op<u8>, bool)>, input: &str, toks: &[u8]) -> Value {
    let arr: [(Op<u8>, bool); N] = match ops.try_into() {
        Ok(a) => a,
        Err(_) => panic!("harness: wrong operator count"),
    };
    let p = ConstPrattParser::<u8, N>::new_const(arr);
    run_map!(p, pairs_of(input, toks), twice)
}

fn run_const(t: &Tab, toks: &[u8]) -> Result<Value, String> {
    let input = "x".repeat(toks.len());
    guarded(|| {
        let mut ops: Vec<(Op<u8>, bool)> = vec![];
        for lv in levels(t) {
            for (j, k) in lv.iter().enumerate() {
                ops.push((mk_op(*k, &t[*k - 1].0), j == 0));
            }
        }
        match ops.len() {
            1 => const_run::<1>(ops, &input, toks),
            2 => const_run::<2>(ops, &input, toks),
            3 => const_run::<3>(ops, &input, toks),
            4 => const_run::<4>(ops, &input, toks),
            5 => const_run::<5>(ops, &input, toks),
            6 => const_run::<6>(ops, &input, toks),
            7 => const_run::<7>(ops, &input, toks),
            8 => const_run::<8>(ops, &input, toks),
            _ => json!("skipped"),
        }
    })
}

/// Registration sequences (a rule may be registered more than once): (rule, affix, level) in registration order.
type Regs = Vec<(usize, String, u32)>;

fn regs_of(v: &Value) -> Regs {
    v.as_array()
        .unwrap()
        .iter()
        .map(|e| (e["rule"].as_u64().unwrap() as usize, e["affix"].as_str().unwrap().to_string(), e["lvl"].as_u64().unwrap() as u32))
        .collect()
}

fn reg_levels(r: &Regs) -> Vec<Vec<usize>> {
    let max = r.iter().map(|e| e.2).max().unwrap_or(0);
    (1..=max).map(|l| (0..r.len()).filter(|i| r[*i].2 == l).collect::<Vec<_>>()).filter(|v: &Vec<usize>| !v.is_empty()).collect()
}

fn run_pratt_regs(r: &Regs, toks: &[u8]) -> Result<Value, String> {
    let input = "x".repeat(toks.len());
    guarded(|| {
        let mut p = PrattParser::<u8>::new();
        for lv in reg_levels(r) {
            p = p.op(chain(lv.iter().map(|i| mk_op(r[*i].0, &r[*i].1)).collect(), toks.len() + r.len()));
        }
        run_map!(p, pairs_of(&input, toks), twice)
    })
}

fn run_const_regs(r: &Regs, toks: &[u8]) -> Result<Value, String> {
    let input = "x".repeat(toks.len());
    guarded(|| {
        let mut ops: Vec<(Op<u8>, bool)> = vec![];
        for lv in reg_levels(r) {
            for (j, i) in lv.iter().enumerate() {
                ops.push((mk_op(r[*i].0, &r[*i].1), j == 0));
            }
        }
        match ops.len() {
            2 => const_run::<2>(ops, &input, toks),
            3 => const_run::<3>(ops, &input, toks),
            4 => const_run::<4>(ops, &input, toks),
            5 => const_run::<5>(ops, &input, toks),
            6 => const_run::<6>(ops, &input, toks),
            _ => json!("skipped"),
        }
    })
}

fn run_climber(t: &Tab, toks: &[u8]) -> Result<Value, String> {
    let input = "x".repeat(toks.len());
    guarded(|| {
        let mut ops = vec![];
        for lv in levels(t) {
            let mk = |k: usize| Operator::new(k as u8, if t[k - 1].0 == "inl" { prec_climber::Assoc::Left } else { prec_climber::Assoc::Right });
            ops.push(chain(lv.iter().map(|k| mk(*k)).collect(), toks.len() + t.len()));
        }
        let c = PrecClimber::new(ops);
        c.climb(
            pairs_of(&input, toks),
            |p: Pair<'_, u8>| json!({"t": "n", "p": pos(&p)}),
            |a: Value, op: Pair<'_, u8>, b: Value| json!({"t": "in", "k": op.as_rule(), "p": pos(&op), "a": a, "b": b}),
        )
    })
}

/// The macro form, used on one fixed table (prefix 1 | infix-left 2 at the lowest level,
/// infix-right 3 above, postfix 4 on top).
fn run_macro(toks: &[u8]) -> Result<Value, String> {
    let input = "x".repeat(toks.len());
    guarded(|| {
        let p = ConstPrattParser::<u8, 4>::new_const(pest::pratt_precedence![
            Op::prefix(1u8) | Op::infix(2u8, Assoc::Left),
            Op::infix(3u8, Assoc::Right),
            Op::postfix(4u8),
        ]);
        run_map!(p, pairs_of(&input, toks))
    })
}

fn val(r: &Result<Value, String>) -> Value {
    match r {
        Ok(v) => v.clone(),
        Err(m) => json!({"panic": m}),
    }
}

/// `vh pratt-replay --cases FILE`
pub fn replay(args: &[String]) {
    silence_panics();
    let path = arg(args, "--cases").expect("--cases");
    let (mut n, mut nclimb, mut nmacro, mut nm) = (0u64, 0u64, 0u64, 0u64);
    let (mut ndup, mut dup_drift) = (0u64, 0u64);
    let mut mism = vec![];
    let macro_table: Tab = vec![("pre".into(), 1), ("inl".into(), 1), ("inr".into(), 2), ("post".into(), 3)];
    for line in read_lines(&path) {
        let rec: Value = serde_json::from_str(&line).unwrap();
        let t = table_of(&rec["table"]);
        let toks: Vec<u8> = rec["toks"].as_array().unwrap().iter().map(|x| x.as_u64().unwrap() as u8).collect();
        n += 1;
        if !rec["regs"].is_null() {
            // one rule registered twice: the property only says that the two parsers agree on the same table;
            // which registration is in force is the model's reading (the last one) and a joint departure from
            // it is counted, not reported
            ndup += 1;
            let r = regs_of(&rec["regs"]);
            let a = val(&run_pratt_regs(&r, &toks));
            let b = val(&run_const_regs(&r, &toks));
            if a != b {
                nm += 1;
                if mism.len() < 20 {
                    mism.push(json!({"parser": "ConstPrattParser vs PrattParser, same registrations", "regs": rec["regs"], "table": rec["table"],
                                     "toks": rec["toks"], "expected": rec["tree"], "observed": {"pratt": a, "const_pratt": b}}));
                }
            } else if a != rec["tree"] {
                dup_drift += 1;
            }
            continue;
        }
        let mut bad = vec![];
        let a = run_pratt(&t, &toks);
        if val(&a) != rec["tree"] {
            bad.push(("PrattParser", val(&a)));
        }
        let b = run_const(&t, &toks);
        if val(&b) != rec["tree"] {
            bad.push(("ConstPrattParser", val(&b)));
        }
        if rec["climber"] == true {
            nclimb += 1;
            let c = run_climber(&t, &toks);
            if val(&c) != rec["tree"] {
                bad.push(("PrecClimber", val(&c)));
            }
        }
        if t == macro_table {
            nmacro += 1;
            let m = run_macro(&toks);
            if val(&m) != rec["tree"] {
                bad.push(("pratt_precedence!", val(&m)));
            }
        }
        for (who, got) in bad {
            nm += 1;
            if mism.len() < 20 {
                mism.push(json!({"parser": who, "table": rec["table"], "toks": rec["toks"], "expected": rec["tree"], "observed": got}));
            }
        }
    }
    println!(
        "{}",
        json!({"cases": n, "climber_cases": nclimb, "macro_cases": nmacro, "dup_cases": ndup, "dup_joint_departures": dup_drift,
               "mismatch_count": nm, "mismatches": mism})
    );
}

fn gen_seq(rng: &mut StdRng, t: &Tab, maxlen: usize) -> Vec<u8> {
    let pre: Vec<u8> = (0..t.len()).filter(|i| t[*i].0 == "pre").map(|i| (i + 1) as u8).collect();
    let post: Vec<u8> = (0..t.len()).filter(|i| t[*i].0 == "post").map(|i| (i + 1) as u8).collect();
    let inf: Vec<u8> = (0..t.len()).filter(|i| t[*i].0.starts_with("in")).map(|i| (i + 1) as u8).collect();
    let mut s = vec![];
    loop {
        while !pre.is_empty() && rng.gen_bool(0.3) && s.len() < maxlen {
            s.push(pre[rng.gen_range(0..pre.len())]);
        }
        s.push(0);
        while !post.is_empty() && rng.gen_bool(0.3) && s.len() < maxlen {
            s.push(post[rng.gen_range(0..post.len())]);
        }
        if inf.is_empty() || s.len() + 2 > maxlen || rng.gen_bool(0.12) {
            break;
        }
        s.push(inf[rng.gen_range(0..inf.len())]);
    }
    s
}

/// `vh pratt-emit --seed S --cases N --out FILE`: random tables (<= 6 levels, <= 8 operators) and
/// sequences (<= 40 tokens); records the trees the real parsers build.
pub fn emit(args: &[String]) {
    silence_panics();
    let seed = arg_u64(args, "--seed", 1);
    let n = arg_u64(args, "--cases", 100);
    let out = arg(args, "--out").expect("--out");
    let mut w = writer(&out);
    let mut rng = StdRng::seed_from_u64(seed);
    let affixes = ["pre", "post", "inl", "inr", "inl", "inr"];
    for id in 1..=n {
        let k = rng.gen_range(1..=8);
        let nl = rng.gen_range(1..=6);
        let infix_only = rng.gen_bool(0.25);
        let mut t: Tab = (0..k)
            .map(|_| (affixes[if infix_only { rng.gen_range(2..4) } else { rng.gen_range(0..6) }].to_string(), rng.gen_range(1..=nl)))
            .collect();
        if infix_only {
            // one associativity per level, so that the deprecated climber applies
            let per: Vec<&str> = (0..=nl).map(|_| if rng.gen_bool(0.5) { "inl" } else { "inr" }).collect();
            for e in t.iter_mut() {
                e.0 = per[e.1 as usize].to_string();
            }
        }
        let toks = gen_seq(&mut rng, &t, 40);
        let a = run_pratt(&t, &toks);
        let b = run_const(&t, &toks);
        let c = if infix_only { val(&run_climber(&t, &toks)) } else { json!("n/a") };
        wl(&mut w, &json!({"id": id, "table": t.iter().map(|e| json!({"affix": e.0, "lvl": e.1})).collect::<Vec<_>>(),
                           "toks": toks, "pratt": val(&a), "const_pratt": val(&b), "climber": c, "climber_applies": infix_only}));
    }
    w.flush().unwrap();
    println!("{}", json!({"cases": n}));
}
