//! C03: programs of ParserState calls interpreted with real closures on a real ParserState.
//! (This file is also compiled into the `vhn` package, which links pest WITHOUT the memchr feature.)
use crate::util::*;
use pest::{Atomicity, MatchDir, ParseResult, ParserState};
use serde_json::{json, Value};
use std::io::Write;

type St<'i> = Box<ParserState<'i, u8>>;

fn s_of(v: &Value) -> String {
    from_cps(v)
}

pub fn interp<'i>(p: &'i Value, st: St<'i>) -> ParseResult<St<'i>> {
    match p["op"].as_str().unwrap() {
        "ok" => Ok(st),
        "err" => Err(st),
        "str" => st.match_string(&s_of(&p["s"])),
        "ins" => st.match_insensitive(&s_of(&p["s"])),
        "range" => {
            let lo = char::from_u32(p["lo"].as_u64().unwrap() as u32).unwrap();
            let hi = char::from_u32(p["hi"].as_u64().unwrap() as u32).unwrap();
            st.match_range(lo..hi)
        }
        "charby" => match p["set"].as_str().unwrap() {
            "digit" => st.match_char_by(|c| c.is_ascii_digit()),
            "alpha" => st.match_char_by(|c| c.is_ascii_alphabetic()),
            "any" => st.match_char_by(|_| true),
            _ => st.match_char_by(|_| false),
        },
        "skip" => st.skip(p["n"].as_u64().unwrap() as usize),
        "until" => {
            let ss: Vec<String> = p["ss"].as_array().unwrap().iter().map(s_of).collect();
            let refs: Vec<&str> = ss.iter().map(|s| s.as_str()).collect();
            st.skip_until(&refs)
        }
        "soi" => st.start_of_input(),
        "eoi" => st.end_of_input(),
        "pushlit" => st.stack_push_literal(s_of(&p["s"])),
        "peek" => st.stack_peek(),
        "pop" => st.stack_pop(),
        "drop" => st.stack_drop(),
        "matchpeek" => st.stack_match_peek(),
        "matchpop" => st.stack_match_pop(),
        "peekslice" => {
            let lo = p["lo"].as_i64().unwrap() as i32;
            let hi = if p["open"].as_bool().unwrap() { None } else { Some(p["hi"].as_i64().unwrap() as i32) };
            let dir = if p["dir"] == "t2b" { MatchDir::TopToBottom } else { MatchDir::BottomToTop };
            st.stack_match_peek_slice(lo, hi, dir)
        }
        "tag" => st.tag_node(p["t"].as_str().unwrap()),
        "then" => interp(&p["a"], st).and_then(|s| interp(&p["b"], s)),
        "else" => interp(&p["a"], st).or_else(|s| interp(&p["b"], s)),
        "opt" => st.optional(|s| interp(&p["p"], s)),
        "rep" => {
            let mut n = 0u32;
            st.repeat(|s| {
                n += 1;
                if n > 5000 {
                    panic!("harness: divergent repeat");
                }
                interp(&p["p"], s)
            })
        }
        "seq" => st.sequence(|s| interp(&p["p"], s)),
        "look" => st.lookahead(p["pos"].as_bool().unwrap(), |s| interp(&p["p"], s)),
        "atomic" => {
            let m = match p["m"].as_str().unwrap() {
                "A" => Atomicity::Atomic,
                "C" => Atomicity::CompoundAtomic,
                _ => Atomicity::NonAtomic,
            };
            st.atomic(m, |s| interp(&p["p"], s))
        }
        "push" => st.stack_push(|s| interp(&p["p"], s)),
        "restore" => st.restore_on_err(|s| interp(&p["p"], s)),
        "rule" => st.rule(p["r"].as_u64().unwrap() as u8, |s| interp(&p["p"], s)),
        o => panic!("harness: unknown op {o}"),
    }
}

/// The observable projection of running `prog` on `input` (same shape as ParserStateMachine!Observable).
pub fn observe(prog: &Value, input: &str) -> Value {
    let _ = pest::verif::take_last();
    let r = guarded(|| pest::state::<u8, _>(input, |s| interp(prog, s)).map(|_| ()).map_err(|_| ()));
    match r {
        Err(m) => {
            if m.contains("called on empty stack") {
                json!({"k": "panic"})
            } else if m.contains("divergent repeat") {
                json!({"k": "div"})
            } else {
                json!({"k": "panic_other", "msg": m})
            }
        }
        Ok(res) => match pest::verif::take_last() {
            None => json!({"k": "noview"}),
            Some(v) => json!({
                "k": if res.is_ok() { "ok" } else { "err" }, "pos": v.pos,
                "q": v.queue.iter().map(|t| json!({"k": t.0.to_string(), "p": t.1, "r": t.2.parse::<u64>().unwrap_or(999), "tag": t.3})).collect::<Vec<_>>(),
                "stk": v.stack.iter().map(|s| cps(s)).collect::<Vec<_>>(),
                "look": v.lookahead, "atom": v.atomicity,
                "view_ok": v.ok == res.is_ok()}),
        },
    }
}

/// `psm-replay --cases FILE`: {prog, cases:[{inp, exp}]} from MC_PsmGen
pub fn replay(args: &[String]) {
    silence_panics();
    let path = arg(args, "--cases").expect("--cases");
    let (mut progs, mut n, mut nm, mut nontriv) = (0u64, 0u64, 0u64, 0u64);
    let mut mism = vec![];
    let mut sample = Value::Null;
    for line in read_lines(&path) {
        let rec: Value = serde_json::from_str(&line).unwrap();
        progs += 1;
        let mut ks = std::collections::BTreeSet::new();
        for c in rec["cases"].as_array().unwrap() {
            let inp = from_cps(&c["inp"]);
            if c["exp"]["k"] == "div" {
                continue;
            }
            n += 1;
            ks.insert(c["exp"]["k"].as_str().unwrap().to_string());
            let mut got = observe(&rec["prog"], &inp);
            if let Some(m) = got.as_object_mut() {
                m.remove("view_ok");
            }
            if got != c["exp"] {
                nm += 1;
                if mism.len() < 25 {
                    mism.push(json!({"program": rec["prog"], "input": inp, "inp": c["inp"], "expected": c["exp"], "observed": got}));
                }
            }
        }
        if ks.len() > 1 {
            nontriv += 1;
            if sample.is_null() || progs % 211 == 0 {
                sample = json!({"program": rec["prog"], "case": rec["cases"][0]});
            }
        }
    }
    println!("{}", json!({"programs": progs, "cases": n, "nontrivial_programs": nontriv, "mismatch_count": nm, "mismatches": mism, "sample": sample}));
}

// ------------------------------------------------------------------ random programs (impl -> spec)
pub struct Lcg(pub u64);
impl Lcg {
    pub fn next(&mut self, n: u64) -> u64 {
        self.0 = self.0.wrapping_mul(6364136223846793005).wrapping_add(1442695040888963407);
        (self.0 >> 33) % n
    }
}

fn lit(r: &mut Lcg) -> Vec<u32> {
    let pool: [&str; 9] = ["a", "b", "ab", "", "é", "aa", "ba", "é😀", "B"];
    pool[r.next(9) as usize].chars().map(|c| c as u32).collect()
}

pub fn rand_prog(r: &mut Lcg, depth: u32) -> Value {
    let leaf = depth == 0 || r.next(100) < 22;
    if leaf {
        return match r.next(22) {
            0 | 1 | 2 | 3 => json!({"op": "str", "s": lit(r)}),
            4 => json!({"op": "ins", "s": lit(r)}),
            5 => json!({"op": "range", "lo": 97, "hi": ([97, 98, 122, 233][r.next(4) as usize])}),
            6 => json!({"op": "charby", "set": (["digit", "alpha", "any", "none"][r.next(4) as usize])}),
            7 => json!({"op": "skip", "n": r.next(3)}),
            8 | 9 => {
                let k = r.next(5);
                json!({"op": "until", "ss": (0..k).map(|_| lit(r)).collect::<Vec<_>>()})
            }
            10 => json!({"op": "soi"}),
            11 => json!({"op": "eoi"}),
            12 => json!({"op": "pushlit", "s": lit(r)}),
            13 => json!({"op": "peek"}),
            14 => json!({"op": "pop"}),
            15 => json!({"op": "drop"}),
            16 => json!({"op": "matchpeek"}),
            17 => json!({"op": "matchpop"}),
            18 => json!({"op": "peekslice", "lo": r.next(5) as i64 - 2, "hi": r.next(5) as i64 - 2, "open": r.next(3) == 0, "dir": (["b2t", "t2b"][r.next(2) as usize])}),
            19 => json!({"op": "tag", "t": (["t", "u"][r.next(2) as usize])}),
            20 => json!({"op": "ok"}),
            _ => json!({"op": "err"}),
        };
    }
    let d = depth - 1;
    match r.next(16) {
        0 | 1 | 2 => json!({"op": "then", "a": rand_prog(r, d), "b": rand_prog(r, d)}),
        3 | 4 => json!({"op": "else", "a": rand_prog(r, d), "b": rand_prog(r, d)}),
        5 | 6 => json!({"op": "seq", "p": rand_prog(r, d)}),
        7 => json!({"op": "opt", "p": rand_prog(r, d)}),
        8 => json!({"op": "rep", "p": rand_prog(r, d)}),
        9 | 10 => json!({"op": "look", "pos": r.next(2) == 0, "p": rand_prog(r, d)}),
        11 => json!({"op": "atomic", "m": (["A", "C", "N"][r.next(3) as usize]), "p": rand_prog(r, d)}),
        12 => json!({"op": "push", "p": rand_prog(r, d)}),
        13 => json!({"op": "restore", "p": rand_prog(r, d)}),
        _ => json!({"op": "rule", "r": 1 + r.next(3), "p": rand_prog(r, d)}),
    }
}

/// `psm-emit --seed S --programs N --out FILE`: random programs (depth <= 8) x random inputs, observed.
pub fn emit(args: &[String]) {
    silence_panics();
    let seed = arg_u64(args, "--seed", 1);
    let n = arg_u64(args, "--programs", 100);
    let out = arg(args, "--out").expect("--out");
    let mut w = writer(&out);
    let mut r = Lcg(seed.wrapping_mul(0x9E3779B97F4A7C15) ^ 0xD1B54A32D192ED03);
    let alpha = ['a', 'b', 'a', 'b', 'é', 'B', '😀', '1'];
    let mut cases = 0u64;
    for id in 1..=n {
        let depth = 2 + r.next(7) as u32;
        let prog = rand_prog(&mut r, depth);
        let mut cs = vec![];
        for _ in 0..6 {
            let len = r.next(7);
            let inp: String = (0..len).map(|_| alpha[r.next(8) as usize]).collect();
            let got = observe(&prog, &inp);
            cases += 1;
            cs.push(json!({"inp": cps(&inp), "got": got}));
        }
        wl(&mut w, &json!({"id": id, "prog": prog, "cases": cs}));
    }
    w.flush().unwrap();
    println!("{}", json!({"programs": n, "cases": cases}));
}
