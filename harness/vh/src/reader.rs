//! C07: texts written by the TLA+ speller (spec/MetaSyntax.tla) read back by the real
//! pest_meta reader; re-spellings of the repository's own grammar files.
use crate::peg::*;
use crate::util::*;
use pest_meta::parser::{self, Rule};
use rand::rngs::StdRng;
use rand::{Rng, SeedableRng};
use serde_json::{json, Value};
use std::io::Write;

/// The reader proper: parse + the conversion of pairs into rules, WITHOUT the validation of the result
/// (hook `verif_consume_rules_unvalidated`), so that every text the speller writes has to be read.
fn read(text: &str) -> Result<Value, String> {
    match guarded(|| {
        let pairs = parser::parse(Rule::grammar_rules, text).map_err(|e| format!("parse error: {e}"))?;
        let ast = parser::verif_consume_rules_unvalidated(pairs).map_err(|es| format!("consume error: {}", es[0]))?;
        Ok::<Value, String>(rules_json(&ast))
    }) {
        Ok(r) => r,
        Err(m) => Err(format!("panic: {m}")),
    }
}

/// What `consume_rules` itself says (reader + validation of the result).
fn read_validated(text: &str) -> Result<Value, String> {
    match guarded(|| {
        let pairs = parser::parse(Rule::grammar_rules, text).map_err(|e| format!("parse error: {e}"))?;
        let ast = parser::consume_rules(pairs).map_err(|es| format!("consume error: {}", es[0]))?;
        Ok::<Value, String>(rules_json(&ast))
    }) {
        Ok(r) => r,
        Err(m) => Err(format!("panic: {m}")),
    }
}

/// `vh reader-replay --cases FILE`
pub fn replay(args: &[String]) {
    silence_panics();
    let path = arg(args, "--cases").expect("--cases");
    let (mut n, mut nm, mut skipped) = (0u64, 0u64, 0u64);
    let mut mism = vec![];
    let mut by_style: std::collections::BTreeMap<String, u64> = Default::default();
    let skipped_why: std::collections::BTreeMap<String, u64> = Default::default();
    for line in read_lines(&path) {
        let rec: Value = serde_json::from_str(&line).unwrap();
        let text = from_cps(&rec["text"]);
        // every text the speller writes is in the reader's domain; grammars whose RESULT the validator then
        // rejects are only counted
        if read_validated(&text).is_err() && read(&text).is_ok() {
            skipped += 1;
        }
        n += 1;
        let got = read(&text);
        let mut ok = matches!(&got, Ok(v) if *v == rec["rules"]);
        // where the validator accepts the result, consume_rules itself must return the same rules
        if ok {
            if let Ok(v) = read_validated(&text) {
                ok = v == rec["rules"];
            }
        }
        if !ok {
            nm += 1;
            let key = format!("gap={} par={} lead={} esc={}", rec["style"]["gap"], rec["style"]["par"], rec["style"]["lead"], rec["style"]["esc"]);
            let c = by_style.entry(key).or_insert(0);
            *c += 1;
            if *c <= 2 && mism.len() < 30 {
                mism.push(json!({"text": text, "text_code_points": rec["text"], "style": rec["style"], "written": rec["rules"],
                                 "read": match &got { Ok(v) => v.clone(), Err(m) => json!({"error": m}) }}));
            }
        }
    }
    println!("{}", json!({"texts": n, "skipped_not_accepted_by_pest": skipped, "mismatch_count": nm, "mismatches": mism, "by_style": by_style, "skipped_why": skipped_why}));
}

fn leaf_tokens(text: &str) -> Option<Vec<String>> {
    // the token sequence of a grammar text, taken from the real meta-parser: leaves of the pair tree,
    // with atomic pieces (strings, characters, identifiers, numbers, doc lines) kept whole
    let pairs = parser::parse(Rule::grammar_rules, text).ok()?;
    let mut out = vec![];
    fn walk(p: pest::iterators::Pair<'_, Rule>, out: &mut Vec<String>) {
        match p.as_rule() {
            Rule::string | Rule::character | Rule::identifier | Rule::number | Rule::integer | Rule::tag_id | Rule::line_doc
            | Rule::grammar_doc => out.push(p.as_str().to_string()),
            r => {
                // literals of the meta-grammar that produce no pair of their own
                match r {
                    Rule::peek_slice => out.push("PEEK".into()),
                    Rule::_push => out.push("PUSH".into()),
                    Rule::_push_literal => out.push("PUSH_LITERAL".into()),
                    Rule::insensitive_string => out.push("^".into()),
                    _ => {}
                }
                let s = p.as_str().to_string();
                let mut inner = p.into_inner().peekable();
                if inner.peek().is_none() {
                    out.push(s);
                } else {
                    for c in inner {
                        walk(c, out);
                    }
                }
            }
        }
    }
    for p in pairs {
        if p.as_rule() != Rule::EOI {
            walk(p, &mut out);
        }
    }
    Some(out)
}

/// `vh reader-respell --seed S --out FILE`: the repository's .pest files re-spaced / re-commented.
pub fn respell(args: &[String]) {
    silence_panics();
    let seed = arg_u64(args, "--seed", 1);
    let out = arg(args, "--out").expect("--out");
    let variants = arg_u64(args, "--variants", 6);
    let mut w = writer(&out);
    let mut rng = StdRng::seed_from_u64(seed);
    let root = format!("{}/../../../repo", env!("CARGO_MANIFEST_DIR"));
    let mut files = vec![];
    for d in ["grammars/src/grammars", "meta/src", "derive/tests", "vm/tests", "derive/examples", "debugger/tests", "grammars/benches"] {
        if let Ok(rd) = std::fs::read_dir(format!("{root}/{d}")) {
            for e in rd.flatten() {
                if e.path().extension().map(|x| x == "pest").unwrap_or(false) {
                    files.push(e.path());
                }
            }
        }
    }
    files.sort();
    let gaps = [" ", "\n", "  ", " /* c */ ", " // c\n", "\t", "\r\n"];
    let mut id = 0u64;
    for f in &files {
        let text = match std::fs::read_to_string(f) {
            Ok(t) => t,
            Err(_) => continue,
        };
        let orig = match read(&text) {
            Ok(v) => v,
            Err(_) => continue, // files that need grammar-extras etc.
        };
        let toks = match leaf_tokens(&text) {
            Some(t) => t,
            None => continue,
        };
        for _ in 0..variants {
            let mut t = String::new();
            for (i, tk) in toks.iter().enumerate() {
                if i > 0 {
                    // a doc line ends with its line break already
                    t.push_str(gaps[rng.gen_range(0..gaps.len())]);
                }
                t.push_str(tk);
                if tk.starts_with("///") || tk.starts_with("//!") {
                    t.push('\n');
                }
            }
            t.push('\n');
            id += 1;
            let again = read(&t);
            wl(&mut w, &json!({"id": id, "file": f.strip_prefix(&root).unwrap_or(f).to_string_lossy(), "tokens": toks.len(),
                               "same": matches!(&again, Ok(v) if *v == orig),
                               "error": match &again { Err(m) => m.clone(), _ => String::new() },
                               "text": if matches!(&again, Ok(v) if *v == orig) { String::new() } else { t.clone() }}));
        }
    }
    w.flush().unwrap();
    println!("{}", json!({"files": files.len(), "respellings": id}));
}
