//! C11: replay of TLC-generated histories on a real `pest::Stack<String>` and
//! recording of long random histories for trace validation.
use crate::util::*;
use pest::Stack;
use rand::rngs::StdRng;
use rand::{Rng, SeedableRng};
use serde_json::{json, Value};
use std::io::Write;

fn contents(s: &Stack<String>) -> Vec<String> {
    s[0..s.len()].to_vec()
}

/// Applies one operation; returns the textual return value ("unit", "none" or the element).
fn apply(s: &mut Stack<String>, o: &str, v: &str) -> String {
    match o {
        "push" => {
            s.push(v.to_string());
            "unit".into()
        }
        "pop" => s.pop().unwrap_or_else(|| "none".into()),
        "peek" => s.peek().cloned().unwrap_or_else(|| "none".into()),
        "snapshot" => {
            s.snapshot();
            "unit".into()
        }
        "clear" => {
            s.clear_snapshot();
            "unit".into()
        }
        "restore" => {
            s.restore();
            "unit".into()
        }
        _ => panic!("harness: unknown op {o}"),
    }
}

/// A history is non-trivial when a snapshot is followed by a push or pop and later by a
/// restore or clear (the transactional machinery is exercised).
fn nontrivial(hist: &[Value]) -> bool {
    let mut stage = 0;
    for st in hist {
        let o = st["o"].as_str().unwrap_or("");
        stage = match (stage, o) {
            (0, "snapshot") => 1,
            (1, "push") | (1, "pop") => 2,
            (2, "restore") | (2, "clear") => 3,
            (s, _) => s,
        };
    }
    stage == 3
}

/// `vh stack-replay --cases FILE`: one JSON array per line (TLC's `hist`).
pub fn replay(args: &[String]) {
    silence_panics();
    let path = arg(args, "--cases").expect("--cases");
    let (mut cases, mut steps, mut nontriv) = (0u64, 0u64, 0u64);
    let mut mism: Vec<Value> = vec![];
    let mut nmism = 0u64;
    for line in read_lines(&path) {
        let hist: Value = serde_json::from_str(&line).expect("case json");
        let hist = hist.as_array().unwrap();
        cases += 1;
        if nontrivial(hist) {
            nontriv += 1;
        }
        let mut s: Stack<String> = Stack::new();
        for (k, st) in hist.iter().enumerate() {
            steps += 1;
            let o = st["o"].as_str().unwrap();
            let v = st["v"].as_str().unwrap();
            let r = guarded(|| apply(&mut s, o, v));
            let exp_ret = st["ret"].as_str().unwrap();
            let exp_cur: Vec<String> = st["cur"]
                .as_array()
                .unwrap()
                .iter()
                .map(|x| x.as_str().unwrap().to_string())
                .collect();
            let (got_ret, got_cur, panicked) = match r {
                Ok(ret) => match guarded(|| contents(&s)) {
                    Ok(c) => (ret, c, false),
                    Err(m) => (ret, vec![format!("<panic {m}>")], true),
                },
                Err(m) => (format!("<panic {m}>"), vec![], true),
            };
            let peek_ok = panicked || s.peek() == exp_cur.last();
            if panicked || !peek_ok || got_ret != exp_ret || got_cur != exp_cur || s.len() != exp_cur.len() {
                nmism += 1;
                if mism.len() < 10 {
                    mism.push(json!({"history": hist, "step": k + 1,
                        "expected": {"ret": exp_ret, "cur": exp_cur},
                        "observed": {"ret": got_ret, "cur": got_cur, "len": s.len(), "panicked": panicked}}));
                }
                break;
            }
        }
    }
    println!(
        "{}",
        json!({"cases": cases, "steps": steps, "nontrivial": nontriv, "mismatch_count": nmism, "mismatches": mism})
    );
}

/// `vh stack-emit --seed S --traces T --ops K --out FILE`
/// Histories are biased towards the hard region: nested snapshots, pops below the
/// snapshot line, re-pushes, clear-then-restore of the parent.
pub fn emit(args: &[String]) {
    silence_panics();
    let seed = arg_u64(args, "--seed", 1);
    let traces = arg_u64(args, "--traces", 10);
    let ops = arg_u64(args, "--ops", 300);
    let out = arg(args, "--out").expect("--out");
    let mut w = writer(&out);
    let mut rng = StdRng::seed_from_u64(seed);
    let vals = ["a", "b", "c", "d", "é", ""];
    let mut maxnest = 0usize;
    if let Some(f) = arg(args, "--ops-file") {
        // replay mode: record exactly the given operation sequence
        let ops: Vec<Value> = serde_json::from_str(&std::fs::read_to_string(f).unwrap()).unwrap();
        wl(&mut w, &json!({"ev": "reset", "trace": 0}));
        let mut s: Stack<String> = Stack::new();
        for op in &ops {
            let (o, v) = (op["o"].as_str().unwrap(), op["v"].as_str().unwrap());
            let r = guarded(|| apply(&mut s, o, v));
            let (ret, panic) = match r {
                Ok(x) => (x, false),
                Err(m) => (format!("<panic {m}>"), true),
            };
            let cur = guarded(|| contents(&s)).unwrap_or_default();
            wl(&mut w, &json!({"ev": "op", "o": o, "v": v, "ret": ret, "panic": panic,
                               "cur": cur, "len": s.len()}));
            if panic {
                break;
            }
        }
        w.flush().unwrap();
        println!("{}", json!({"traces": 1}));
        return;
    }
    for t in 0..traces {
        wl(&mut w, &json!({"ev": "reset", "trace": t}));
        let mut s: Stack<String> = Stack::new();
        let mut nest = 0usize;
        // per-trace operation weights
        let wts: [u32; 6] = [
            rng.gen_range(2..8),
            rng.gen_range(2..9),
            rng.gen_range(0..2),
            rng.gen_range(1..6),
            rng.gen_range(1..5),
            rng.gen_range(1..5),
        ];
        let total: u32 = wts.iter().sum();
        for _ in 0..ops {
            let mut r = rng.gen_range(0..total);
            let mut k = 0;
            while r >= wts[k] {
                r -= wts[k];
                k += 1;
            }
            let o = ["push", "pop", "peek", "snapshot", "clear", "restore"][k];
            let v = if o == "push" { vals[rng.gen_range(0..vals.len())] } else { "" };
            match o {
                "snapshot" => nest += 1,
                "clear" | "restore" => nest = nest.saturating_sub(1),
                _ => {}
            }
            maxnest = maxnest.max(nest);
            let r = guarded(|| apply(&mut s, o, v));
            let (ret, panic) = match r {
                Ok(x) => (x, false),
                Err(m) => (format!("<panic {m}>"), true),
            };
            let cur = guarded(|| contents(&s)).unwrap_or_default();
            wl(&mut w, &json!({"ev": "op", "o": o, "v": v, "ret": ret, "panic": panic,
                               "cur": cur, "len": s.len()}));
            if panic {
                break;
            }
        }
    }
    w.flush().unwrap();
    println!("{}", json!({"traces": traces, "ops_per_trace": ops, "max_nesting": maxnest}));
}
