//! C12 (call-limit sweeps) and C15 (error-detail on/off) workloads on the real VM.
//! Both use process-global switches (`set_call_limit`, `set_error_detail`), so this runs
//! single-threaded.
use crate::c01::profile;
use crate::gen;
use crate::peg::*;
use crate::util::*;
use rand::rngs::StdRng;
use rand::SeedableRng;
use serde_json::{json, Value};
use std::io::Write;
use std::num::NonZeroUsize;

/// The observable result of a parse as one canonical string.
pub fn canon(o: &Value) -> String {
    match o["k"].as_str().unwrap() {
        "ok" => format!("OK end={} toks={} stk={}", o["end"], o["toks"], o["stk"]),
        "fail" => format!("FAIL pos={} positives={} negatives={}", o["pos"], o["positives"], o["negatives"]),
        "calllimit" => "CALLLIMIT".to_string(),
        "panic" => format!("PANIC empty_stack={}", o["empty_stack"]),
        k => format!("{} {}", k, o),
    }
}

struct Source {
    grammars: Vec<(String, Vec<(String, String)>)>, // text, (start, input)
}

fn sources(args: &[String], inputs_per: usize) -> Source {
    let mut grammars = vec![];
    if let Some(cases) = arg(args, "--cases") {
        for line in read_lines(&cases) {
            let rec: Value = serde_json::from_str(&line).unwrap();
            let text = match rec.get("text").and_then(|t| t.as_str()) {
                Some(t) => t.to_string(),
                None => grammar_text(&rec["g"], None),
            };
            let cs = rec["cases"]
                .as_array()
                .unwrap()
                .iter()
                .filter(|c| !matches!(c["exp"]["k"].as_str(), Some("div") | Some("fuel")))
                .map(|c| (c["start"].as_str().unwrap().to_string(), from_cps(&c["inp"])))
                .collect();
            grammars.push((text, cs));
        }
    } else {
        let seed = arg_u64(args, "--seed", 1);
        let want = arg_u64(args, "--grammars", 100) as usize;
        let prof = arg_or(args, "--profile", "mix");
        let maxlen = arg_u64(args, "--maxlen", 6) as usize;
        let mut rng = StdRng::seed_from_u64(seed);
        let mut tries = 0;
        while grammars.len() < want && tries < want * 40 {
            tries += 1;
            let cfg = profile(&prof, &mut rng);
            let (g, order) = gen::grammar(&mut rng, &cfg);
            let text = grammar_text(&g, Some(&order));
            if std::env::var("VH_TRACE").is_ok() {
                eprintln!("TRY {text:?}");
            }
            if !matches!(guarded(|| front_end(&text)), Ok(Ok(_))) {
                continue;
            }
            let mut cs = vec![];
            for start in &order {
                for _ in 0..inputs_per {
                    cs.push((start.clone(), gen::input(&mut rng, maxlen, &gen::ALPHA)));
                }
            }
            grammars.push((text, cs));
        }
    }
    Source { grammars }
}

/// `vh c12-emit [--cases FILE | --seed ..] --out FILE`
pub fn c12(args: &[String]) {
    silence_panics();
    let out = arg(args, "--out").expect("--out");
    let max_n = arg_u64(args, "--max-calls", 120);
    // `--detail 1`: the whole sweep (the unlimited run included) with detailed error tracking switched on
    let detail = arg_u64(args, "--detail", 0) > 0;
    pest::set_error_detail(detail);
    let backend = if detail { "vm, error detail on" } else { "vm" };
    let src = sources(args, 4);
    let mut w = writer(&out);
    let (mut id, mut skipped_big, mut runs, mut absorbed_seen, mut skipped_panic) = (0u64, 0u64, 0u64, 0u64, 0u64);
    let trace = std::env::var("VH_TRACE").is_ok();
    for (text, cs) in &src.grammars {
        if trace {
            eprintln!("GRAMMAR {text:?}");
        }
        // the limit is process-global and pest_meta's own parser is subject to it
        pest::set_call_limit(None);
        let opt = match guarded(|| front_end(text)) {
            Ok(Ok((_, o))) => o,
            _ => continue,
        };
        let vm = pest_vm::Vm::new(opt);
        for (start, inp) in cs {
            if trace {
                eprintln!("  CASE {start} {inp:?}");
            }
            // a probe run tells how many calls the parse needs; parses needing more than max_n are not swept, so the
            // probe's own limit only has to exceed that (a large one lets `(PUSH(PEEK_ALL))*` grow the stack for minutes)
            pest::set_call_limit(NonZeroUsize::new((max_n as usize + 10) * 4));
            let o = run_vm(&vm, start, inp);
            let n = o["calls"].as_u64().unwrap_or(0);
            if n > max_n || o["limit_reached"] == true || tok_depth(&o["toks"]) > 40 {
                skipped_big += 1;
                continue;
            }
            if o["k"] == "panic" {
                // the documented empty-stack panic of POP/PEEK: no result to compare
                skipped_panic += 1;
                continue;
            }
            pest::set_call_limit(None);
            // this parse finished within n calls under a limit; without one it has to finish too - a run that
            // does not return is recorded as such (its own result, equal to no limited result)
            let rinf = match run_vm_watchdog(text, start, inp, 20) {
                Some(oinf) => canon(&oinf),
                None => "NO-RETURN without a limit".to_string(),
            };
            let mut sweep = vec![];
            for l in 1..=(n + 3) {
                pest::set_call_limit(NonZeroUsize::new(l as usize));
                let r = canon(&run_vm(&vm, start, inp));
                runs += 1;
                if r != rinf && r != "CALLLIMIT" {
                    absorbed_seen += 1;
                }
                sweep.push(json!({"l": l, "r": r}));
            }
            id += 1;
            wl(&mut w, &json!({"id": id, "text": text, "start": start, "inp": cps(inp), "backend": backend,
                               "calls_needed": n, "rinf": rinf, "sweep": sweep}));
        }
    }
    pest::set_call_limit(None);
    pest::set_error_detail(false);
    w.flush().unwrap();
    println!("{}", json!({"cases": id, "limited_runs": runs, "skipped_many_calls": skipped_big, "skipped_panicking": skipped_panic,
                          "grammars": src.grammars.len(), "runs_differing_from_unlimited": absorbed_seen}));
}

/// `vh c15-emit [--cases FILE | --seed ..] --out FILE`
pub fn c15(args: &[String]) {
    silence_panics();
    let out = arg(args, "--out").expect("--out");
    let src = sources(args, 6);
    let mut w = writer(&out);
    let (mut id, mut dropped, mut fails) = (0u64, 0u64, 0u64);
    for (text, cs) in &src.grammars {
        pest::set_call_limit(None);
        let opt = match guarded(|| front_end(text)) {
            Ok(Ok((_, o))) => o,
            _ => continue,
        };
        pest::set_call_limit(NonZeroUsize::new(20000));
        let vm = pest_vm::Vm::new(opt);
        for (start, inp) in cs {
            pest::set_error_detail(false);
            let off = run_vm(&vm, start, inp);
            if off["limit_reached"] == true || off["calls"].as_u64().unwrap_or(0) > 3000 || tok_depth(&off["toks"]) > 40 {
                dropped += 1;
                continue;
            }
            pest::set_error_detail(true);
            let _ = pest::verif::take_last();
            let r = guarded(|| vm.parse(start, inp));
            let mut detail = json!({"has": false});
            if let Ok(Err(e)) = &r {
                fails += 1;
                if let Some(pa) = e.parse_attempts() {
                    let maxpos = pa.max_position;
                    let boundary = maxpos <= inp.len() && inp.is_char_boundary(maxpos);
                    let rendered = guarded(|| {
                        let rtm: pest::error::RuleToMessageFn<&str> = Box::new(|r: &&str| Some(format!("rule {r}")));
                        let isw: pest::error::IsWhitespaceFn = Box::new(|s: String| s == " " || s == "\n");
                        e.parse_attempts_error(inp, &rtm, &isw).map(|e2| e2.to_string().len())
                    });
                    let accessors = guarded(|| (pa.expected_tokens().len(), pa.unexpected_tokens().len(), pa.call_stacks().len()));
                    detail = json!({"has": true, "max_position": maxpos, "len": inp.len(), "boundary": boundary,
                                    "rendered": matches!(rendered, Ok(Some(_))), "accessors": accessors.is_ok(),
                                    "display": guarded(|| e.to_string().len()).is_ok()});
                }
            }
            let on = add_final_view(outcome_json(r, &|r: &str| r.to_string()));
            pest::set_error_detail(false);
            id += 1;
            wl(&mut w, &json!({"id": id, "text": text, "start": start, "inp": cps(inp), "backend": "vm",
                               "off": canon(&off), "on": canon(&on), "on_kind": on["k"], "detail": detail}));
        }
    }
    w.flush().unwrap();
    println!("{}", json!({"cases": id, "failing_parses": fails, "dropped": dropped, "grammars": src.grammars.len()}));
}

/// `vh entries-emit [--cases FILE | --seed ..] --out FILE`: the rule entries a listener on the real VM is told
/// about (C17: "the breakpoint hits of the parse"), per (grammar, start, input), together with the optimized
/// rules the VM runs, for validation against the entry log of the TLA+ semantics (Trace_Entries).
pub fn entries(args: &[String]) {
    use std::sync::{Arc, Mutex};
    silence_panics();
    let out = arg(args, "--out").expect("--out");
    let src = sources(args, 6);
    let mut w = writer(&out);
    let (mut id, mut dropped, mut ncases, mut nentries) = (0u64, 0u64, 0u64, 0u64);
    let uni = crate::c01::uni_table(&gen::ALPHA);
    for (text, cs) in &src.grammars {
        pest::set_call_limit(None);
        let opt = match guarded(|| front_end(text)) {
            Ok(Ok((_, o))) => o,
            _ => continue,
        };
        let g = opt_rules_json(&opt);
        pest::set_call_limit(NonZeroUsize::new(20000));
        let log: Arc<Mutex<Vec<(String, usize)>>> = Arc::new(Mutex::new(vec![]));
        let l2 = Arc::clone(&log);
        let vm = pest_vm::Vm::new_with_listener(
            opt,
            Box::new(move |rule, pos| {
                l2.lock().unwrap().push((rule, pos.pos()));
                false
            }),
        );
        let mut recs = vec![];
        for (start, inp) in cs {
            log.lock().unwrap().clear();
            let o = run_vm(&vm, start, inp);
            let ents = log.lock().unwrap().clone();
            if o["limit_reached"] == true || o["calls"].as_u64().unwrap_or(0) > 3000 || ents.len() > 400 {
                dropped += 1;
                continue;
            }
            ncases += 1;
            nentries += ents.len() as u64;
            recs.push(json!({"start": start, "inp": cps(inp), "k": o["k"],
                             "entries": ents.iter().map(|(r, p)| json!({"r": r, "p": p})).collect::<Vec<_>>()}));
        }
        if !recs.is_empty() {
            id += 1;
            wl(&mut w, &json!({"id": id, "text": text, "g": g, "uni": uni, "extras": EXTRAS, "cases": recs}));
        }
    }
    w.flush().unwrap();
    println!("{}", json!({"grammars": id, "cases": ncases, "entries": nentries, "dropped": dropped}));
}

/// `vh streams-emit [--cases FILE | --seed ..] --out FILE`: the token queue a successful parse of the real VM
/// leaves behind (hook H1), for validation of its well-formedness (Trace_Streams, C04).
pub fn streams(args: &[String]) {
    silence_panics();
    let out = arg(args, "--out").expect("--out");
    let src = sources(args, 8);
    let mut w = writer(&out);
    let (mut id, mut ncases, mut ntoks, mut dropped) = (0u64, 0u64, 0u64, 0u64);
    for (text, cs) in &src.grammars {
        pest::set_call_limit(None);
        let opt = match guarded(|| front_end(text)) {
            Ok(Ok((_, o))) => o,
            _ => continue,
        };
        pest::set_call_limit(NonZeroUsize::new(20000));
        let vm = pest_vm::Vm::new(opt);
        let mut recs = vec![];
        for (start, inp) in cs {
            let _ = pest::verif::take_last();
            let r = guarded(|| vm.parse(start, inp).map(|_| ()));
            let view = pest::verif::take_last();
            let uses_stack = text.contains("POP") || text.contains("PEEK") || text.contains("DROP");
            let v = match (r, view) {
                (Ok(Ok(())), Some(v)) if v.ok && !v.limit_reached && v.queue.len() <= 400 => v,
                (Err(_), _) if !uses_stack => {
                    // a parse that panics (and not with the documented empty-stack panic of POP / PEEK) hands back no
                    // stream at all: recorded as a stream that cannot be well formed
                    ncases += 1;
                    recs.push(json!({"start": start, "inp": cps(inp), "q": [{"k": "P", "p": 0, "r": "panic"}]}));
                    continue;
                }
                _ => {
                    dropped += 1;
                    continue;
                }
            };
            ncases += 1;
            ntoks += v.queue.len() as u64;
            recs.push(json!({"start": start, "inp": cps(inp),
                             "q": v.queue.iter().map(|t| json!({"k": t.0.to_string(), "p": t.1, "r": t.2})).collect::<Vec<_>>()}));
        }
        if !recs.is_empty() {
            id += 1;
            wl(&mut w, &json!({"id": id, "text": text, "cases": recs}));
        }
    }
    w.flush().unwrap();
    println!("{}", json!({"grammars": id, "cases": ncases, "tokens": ntoks, "dropped_failing_or_limited": dropped}));
}
