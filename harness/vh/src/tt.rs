//! C04: every view of a token tree (Pairs / Pair / FlatPairs / Tokens), for trees built with
//! PairsBuilder and by a real parse, recorded for validation against spec/TokenTree.tla.
use crate::util::*;
use pest::iterators::{Pair, Pairs, PairsBuilder};
use pest::{ParseResult, ParserState, Token};
use rand::rngs::StdRng;
use rand::{Rng, SeedableRng};
use serde_json::{json, Value};
use std::io::Write;

// ---------------------------------------------------------------- building the tree twice

fn build_nodes<'i>(mut b: PairsBuilder<'i, u8>, nodes: &'i [Value]) -> PairsBuilder<'i, u8> {
    for n in nodes {
        let (r, s, e) = (n["r"].as_u64().unwrap() as u8, n["s"].as_u64().unwrap() as usize, n["e"].as_u64().unwrap() as usize);
        let kids = n["c"].as_array().unwrap();
        b = if kids.is_empty() { b.rule(r, s, e) } else { b.rule_with(r, s, e, |bb| build_nodes(bb, kids)) };
        let tag = n["tag"].as_str().unwrap();
        if !tag.is_empty() {
            b = b.tag(tag);
        }
    }
    b
}

fn chars_between(input: &str, a: usize, b: usize) -> usize {
    input[a..b].chars().count()
}

fn parse_nodes<'i>(
    mut st: Box<ParserState<'i, u8>>,
    input: &'i str,
    nodes: &'i [Value],
    upto: usize,
) -> ParseResult<Box<ParserState<'i, u8>>> {
    for n in nodes {
        let (r, s, e) = (n["r"].as_u64().unwrap() as u8, n["s"].as_u64().unwrap() as usize, n["e"].as_u64().unwrap() as usize);
        let here = st.position().pos();
        st = st.skip(chars_between(input, here, s))?;
        let kids = n["c"].as_array().unwrap();
        st = st.rule(r, |st| parse_nodes(st, input, kids, e))?;
        let tag = n["tag"].as_str().unwrap();
        if !tag.is_empty() {
            st = st.tag_node(tag)?;
        }
    }
    let here = st.position().pos();
    st.skip(chars_between(input, here, upto))
}

fn construct<'i>(input: &'i str, forest: &'i [Value], by_parse: bool) -> Pairs<'i, u8> {
    if by_parse {
        let end = forest.last().map(|n| n["e"].as_u64().unwrap() as usize).unwrap_or(0);
        pest::state::<u8, _>(input, |st| parse_nodes(st, input, forest, end)).expect("harness: synthetic parse failed")
    } else {
        build_nodes(PairsBuilder::new(input), forest).build()
    }
}

// ---------------------------------------------------------------- observations

fn off(input: &str, s: &str) -> Value {
    let a = s.as_ptr() as usize - input.as_ptr() as usize;
    json!([a, a + s.len()])
}

fn item(p: &Pair<'_, u8>) -> Value {
    let sp = p.as_span();
    json!({"r": p.as_rule(), "s": sp.start(), "e": sp.end(), "tag": p.as_node_tag().unwrap_or("")})
}

fn tok(t: &Token<'_, u8>) -> Value {
    match t {
        Token::Start { rule, pos } => json!({"k": "S", "r": rule, "p": pos.pos()}),
        Token::End { rule, pos } => json!({"k": "E", "r": rule, "p": pos.pos()}),
    }
}

fn opt<T>(o: Option<T>, f: impl Fn(&T) -> Value) -> Value {
    match o {
        Some(x) => json!([f(&x)]),
        None => json!([]),
    }
}

/// Display `{:#}`: `1(0, 3, [2(1, 2)])`
fn parse_display(s: &str) -> Option<Value> {
    fn list(b: &[u8], i: &mut usize) -> Option<Vec<Value>> {
        let mut v = vec![];
        if b.get(*i) != Some(&b'[') {
            return None;
        }
        *i += 1;
        if b.get(*i) == Some(&b']') {
            *i += 1;
            return Some(v);
        }
        loop {
            v.push(node(b, i)?);
            if b[*i..].starts_with(b", ") {
                *i += 2;
            } else if b.get(*i) == Some(&b']') {
                *i += 1;
                return Some(v);
            } else {
                return None;
            }
        }
    }
    fn num(b: &[u8], i: &mut usize) -> Option<u64> {
        let st = *i;
        while *i < b.len() && b[*i].is_ascii_digit() {
            *i += 1;
        }
        std::str::from_utf8(&b[st..*i]).ok()?.parse().ok()
    }
    fn node(b: &[u8], i: &mut usize) -> Option<Value> {
        let r = num(b, i)?;
        if b.get(*i) != Some(&b'(') {
            return None;
        }
        *i += 1;
        let s = num(b, i)?;
        if !b[*i..].starts_with(b", ") {
            return None;
        }
        *i += 2;
        let e = num(b, i)?;
        let mut c = vec![];
        if b[*i..].starts_with(b", ") {
            *i += 2;
            c = list(b, i)?;
        }
        if b.get(*i) != Some(&b')') {
            return None;
        }
        *i += 1;
        Some(json!({"r": r, "s": s, "e": e, "c": c}))
    }
    let b = s.as_bytes();
    let mut i = 0;
    let v = list(b, &mut i)?;
    if i == b.len() {
        Some(json!(v))
    } else {
        None
    }
}

/// to_json of Pairs: {"pos":[s,e],"pairs":[{"pos","rule","inner": str | {pos, pairs}}]}
fn parse_json(v: &Value, input: &str) -> Option<Value> {
    let mut out = vec![];
    for p in v["pairs"].as_array()? {
        let (s, e) = (p["pos"][0].as_u64()?, p["pos"][1].as_u64()?);
        let r: u64 = p["rule"].as_str()?.parse().ok()?;
        let c = match &p["inner"] {
            Value::String(t) => {
                if t != &input[s as usize..e as usize] {
                    return None;
                }
                json!([])
            }
            o => parse_json(o, input)?,
        };
        out.push(json!({"r": r, "s": s, "e": e, "c": c}));
    }
    Some(json!(out))
}

/// Debug: `[Pair { rule: 1, node_tag: "t", span: Span { str: "ab", range: 0..2 }, inner: [...] }, ...]`
fn parse_debug(s: &str) -> Option<Value> {
    let b = s.as_bytes();
    fn expect(b: &[u8], i: &mut usize, t: &str) -> Option<()> {
        if b[*i..].starts_with(t.as_bytes()) {
            *i += t.len();
            Some(())
        } else {
            None
        }
    }
    fn num(b: &[u8], i: &mut usize) -> Option<u64> {
        let st = *i;
        while *i < b.len() && b[*i].is_ascii_digit() {
            *i += 1;
        }
        std::str::from_utf8(&b[st..*i]).ok()?.parse().ok()
    }
    fn strlit(b: &[u8], i: &mut usize) -> Option<String> {
        expect(b, i, "\"")?;
        let st = *i;
        while *i < b.len() && b[*i] != b'"' {
            if b[*i] == b'\\' {
                *i += 1;
            }
            *i += 1;
        }
        let t = std::str::from_utf8(&b[st..*i]).ok()?.to_string();
        *i += 1;
        Some(t)
    }
    fn list(b: &[u8], i: &mut usize) -> Option<Vec<Value>> {
        expect(b, i, "[")?;
        let mut v = vec![];
        if expect(b, i, "]").is_some() {
            return Some(v);
        }
        loop {
            expect(b, i, "Pair { rule: ")?;
            let r = num(b, i)?;
            let mut tag = String::new();
            if expect(b, i, ", node_tag: ").is_some() {
                tag = strlit(b, i)?;
            }
            expect(b, i, ", span: Span { str: ")?;
            strlit(b, i)?;
            expect(b, i, ", range: ")?;
            let s = num(b, i)?;
            expect(b, i, "..")?;
            let e = num(b, i)?;
            expect(b, i, " }, inner: ")?;
            let c = list(b, i)?;
            expect(b, i, " }")?;
            v.push(json!({"r": r, "s": s, "e": e, "tag": tag, "c": c}));
            if expect(b, i, ", ").is_none() {
                expect(b, i, "]")?;
                return Some(v);
            }
        }
    }
    let mut i = 0;
    let v = list(b, &mut i)?;
    if i == b.len() {
        Some(json!(v))
    } else {
        None
    }
}

fn none_tree() -> Value {
    json!([{"r": 255, "s": 0, "e": 0, "c": []}])
}

/// One iterator run: ops is a string over N (next) / B (next_back); len, size_hint and (Pairs only)
/// peek are observed after every step.
fn iter_run(kind: &str, ps: Pairs<'_, u8>, ops: &str) -> Value {
    let mut steps = vec![];
    macro_rules! go {
        ($it:expr, $conv:expr, $peek:expr) => {{
            let mut it = $it;
            // after every step also: a CLONE of the iterator must report the same length, and stepping a clone past the
            // end (nth / nth_back with the number of items left, and with two more) must give nothing and leave an empty iterator
            macro_rules! side {
                ($i:expr) => {{
                    let c = $i.clone();
                    let (mut a, mut b) = ($i.clone(), $i.clone());
                    let k = $i.len();
                    let (mut a2, mut b2) = ($i.clone(), $i.clone());
                    let none = a.nth(k).is_none() && b.nth_back(k).is_none() && a2.nth(k + 2).is_none() && b2.nth_back(k + 2).is_none()
                        && a2.len() == 0 && b2.len() == 0 && a2.size_hint() == (0, Some(0)) && b2.size_hint() == (0, Some(0));
                    let last_ok = k == 0 || ($i.clone().nth(k - 1).is_some() && $i.clone().nth_back(k - 1).is_some());
                    json!({"clen": c.len(), "chint": [c.size_hint().0, c.size_hint().1], "over": [a.len(), b.len()], "over_none": none && last_ok})
                }};
            }
            steps.push(json!({"op": "-", "ret": [], "len": it.len(), "hint": [it.size_hint().0, it.size_hint().1], "peek": $peek(&it), "side": side!(it)}));
            for o in ops.chars() {
                let ret = if o == 'N' { it.next() } else { it.next_back() };
                steps.push(json!({"op": o.to_string(), "ret": opt(ret, $conv), "len": it.len(),
                                  "hint": [it.size_hint().0, it.size_hint().1], "peek": $peek(&it), "side": side!(it)}));
            }
        }};
    }
    let r = guarded(|| {
        match kind {
            "pairs" => go!(ps, |p: &Pair<'_, u8>| item(p), |it: &Pairs<'_, u8>| opt(it.peek(), |p| item(p))),
            "flat" => go!(ps.flatten(), |p: &Pair<'_, u8>| item(p), |_it: &pest::iterators::FlatPairs<'_, u8>| json!("n/a")),
            _ => go!(ps.tokens(), |t: &Token<'_, u8>| tok(t), |_it: &pest::iterators::Tokens<'_, u8>| json!("n/a")),
        }
        steps.clone()
    });
    match r {
        Ok(s) => json!({"kind": kind, "ops": ops.chars().map(|c| c.to_string()).collect::<Vec<_>>(), "panic": "", "steps": s}),
        Err(m) => json!({"kind": kind, "ops": ops.chars().map(|c| c.to_string()).collect::<Vec<_>>(), "panic": m, "steps": []}),
    }
}

fn node_views(p: Pair<'_, u8>, input: &str) -> Value {
    let r = guarded(|| {
        let inner: Vec<Value> = p.clone().into_inner().map(|c| item(&c)).collect();
        let toks: Vec<Value> = p.clone().tokens().map(|t| tok(&t)).collect();
        let single = Pairs::single(p.clone());
        let s_items: Vec<Value> = single.clone().map(|c| item(&c)).collect();
        let s_back: Vec<Value> = single.clone().rev().map(|c| item(&c)).collect();
        let s_toks: Vec<Value> = single.clone().tokens().map(|t| tok(&t)).collect();
        let lc = p.line_col();
        let span_lc = p.as_span().start_pos().line_col();
        json!({"item": item(&p), "str": off(input, p.as_str()), "span": [p.as_span().start(), p.as_span().end()],
               "input_ok": std::ptr::eq(p.get_input(), input),
               "inner": inner, "tokens": toks,
               "single": {"str": off(input, single.as_str()), "items": s_items, "back": s_back, "len": single.len(), "tokens": s_toks},
               "line_col": [lc.0, lc.1], "span_line_col": [span_lc.0, span_lc.1],
               "display_plain_ok": format!("{p}") == p.as_str(),
               "display": parse_display(&format!("[{p:#}]")).unwrap_or_else(none_tree),
               "debug": parse_debug(&format!("[{p:?}]")).unwrap_or_else(none_tree)})
    });
    match r {
        Ok(mut v) => {
            v["panic"] = json!("");
            v
        }
        Err(m) => json!({"panic": m}),
    }
}

fn observe(id: u64, inp: &str, forest: &[Value], by_parse: bool, opseqs: &[String]) -> Value {
    let whole = guarded(|| {
        let ps = construct(inp, forest, by_parse);
        let flat: Vec<Pair<'_, u8>> = ps.clone().flatten().collect();
        let nodes: Vec<Value> = flat.into_iter().map(|p| node_views(p, inp)).collect();
        let str_ = if ps.clone().next().is_some() { off(inp, ps.as_str()) } else { json!([0, 0]) };
        let top = json!({
            "str": str_, "concat": cps(&ps.concat()), "len": ps.len(), "is_empty": ps.is_empty(),
            "items": ps.clone().map(|p| item(&p)).collect::<Vec<_>>(),
            "flatten": ps.clone().flatten().map(|p| item(&p)).collect::<Vec<_>>(),
            "tokens": ps.clone().tokens().map(|t| tok(&t)).collect::<Vec<_>>(),
            "tagged_t": ps.clone().find_tagged("t").map(|p| item(&p)).collect::<Vec<_>>(),
            "first_tagged_t": opt(ps.find_first_tagged("t"), |p| item(p)),
            "display_plain_ok": format!("{ps}") == format!("[{}]", ps.clone().map(|p| p.as_str().to_string()).collect::<Vec<_>>().join(", ")),
            "display": parse_display(&format!("{ps:#}")).unwrap_or_else(none_tree),
            "debug": parse_debug(&format!("{ps:?}")).unwrap_or_else(none_tree),
            "json": if forest.is_empty() { json!([]) } else {
                serde_json::from_str::<Value>(&ps.to_json()).ok().and_then(|v| parse_json(&v, inp)).unwrap_or_else(none_tree) },
        });
        let mut runs = vec![];
        for ops in opseqs {
            for kind in ["pairs", "flat", "tokens"] {
                runs.push(iter_run(kind, ps.clone(), ops));
            }
        }
        (top, nodes, runs)
    });
    match whole {
        Ok((top, nodes, runs)) => json!({"id": id, "inp": cps(inp), "forest": forest, "src": if by_parse { "parse" } else { "builder" },
                                         "panic": "", "top": top, "nodes": nodes, "runs": runs}),
        Err(m) => json!({"id": id, "inp": cps(inp), "forest": forest, "src": if by_parse { "parse" } else { "builder" }, "panic": m,
                         "top": {}, "nodes": [], "runs": []}),
    }
}

/// `vh tt-observe --cases FILE --out FILE`: records {inp, forest, ops:[..]} from MC_TokenTreeGen.
pub fn observe_cmd(args: &[String]) {
    silence_panics();
    let out = arg(args, "--out").expect("--out");
    let mut w = writer(&out);
    let (mut n, mut runs) = (0u64, 0u64);
    if let Some(cases) = arg(args, "--cases") {
        for line in read_lines(&cases) {
            let rec: Value = serde_json::from_str(&line).unwrap();
            let inp = from_cps(&rec["inp"]);
            let forest = rec["forest"].as_array().unwrap().clone();
            let ops: Vec<String> = rec["ops"].as_array().unwrap().iter().map(|o| o.as_str().unwrap().to_string()).collect();
            for by_parse in [false, true] {
                n += 1;
                let o = observe(n, &inp, &forest, by_parse, &ops);
                runs += o["runs"].as_array().unwrap().len() as u64;
                wl(&mut w, &o);
            }
        }
    } else {
        let seed = arg_u64(args, "--seed", 1);
        let trees = arg_u64(args, "--trees", 50);
        let mut rng = StdRng::seed_from_u64(seed);
        let alpha = ['a', 'b', 'é', '\n', '😀', ' ', '\r', '\n'];
        for _ in 0..trees {
            let len = rng.gen_range(0..24);
            let mut inp = String::new();
            for _ in 0..len {
                if rng.gen_bool(0.15) {
                    inp.push_str("\r\n");
                } else {
                    inp.push(alpha[rng.gen_range(0..alpha.len())]);
                }
            }
            let bounds: Vec<usize> = inp.char_indices().map(|(i, _)| i).chain(std::iter::once(inp.len())).collect();
            let mut budget = rng.gen_range(0..40usize);
            let forest = rand_forest(&mut rng, &bounds, 0, bounds.len() - 1, &mut budget, 0);
            let ops: Vec<String> = (0..3)
                .map(|_| (0..rng.gen_range(0..50)).map(|_| if rng.gen_bool(0.5) { 'N' } else { 'B' }).collect())
                .collect();
            for by_parse in [false, true] {
                n += 1;
                let o = observe(n, &inp, &forest, by_parse, &ops);
                runs += o["runs"].as_array().unwrap().len() as u64;
                wl(&mut w, &o);
            }
        }
    }
    w.flush().unwrap();
    println!("{}", json!({"trees_observed": n, "iterator_runs": runs}));
}

fn rand_forest(rng: &mut StdRng, b: &[usize], lo: usize, hi: usize, budget: &mut usize, depth: usize) -> Vec<Value> {
    let mut v = vec![];
    let mut cur = lo;
    while *budget > 0 && rng.gen_bool(if depth == 0 { 0.85 } else { 0.6 }) {
        let s = rng.gen_range(cur..=hi);
        let e = rng.gen_range(s..=hi);
        *budget -= 1;
        let kids = if depth < 8 { rand_forest(rng, b, s, e, budget, depth + 1) } else { vec![] };
        let tag = if rng.gen_bool(0.2) { "t" } else if rng.gen_bool(0.1) { "u" } else { "" };
        v.push(json!({"r": rng.gen_range(1..4), "s": b[s], "e": b[e], "tag": tag, "c": kids}));
        cur = e;
    }
    v
}
