//! Shared helpers: silent panic capture, ndjson I/O, seeded RNG.
use std::fs::File;
use std::io::{BufRead, BufReader, BufWriter, Write};
use std::panic::{catch_unwind, AssertUnwindSafe};

pub fn silence_panics() {
    if std::env::var("VH_SHOW_PANICS").is_ok() {
        return;
    }
    std::panic::set_hook(Box::new(|_| {}));
}

/// Runs `f`, turning a panic into `Err(message)`.
pub fn guarded<T>(f: impl FnOnce() -> T) -> Result<T, String> {
    match catch_unwind(AssertUnwindSafe(f)) {
        Ok(v) => Ok(v),
        Err(e) => Err(if let Some(s) = e.downcast_ref::<&str>() {
            s.to_string()
        } else if let Some(s) = e.downcast_ref::<String>() {
            s.clone()
        } else {
            "panic".to_string()
        }),
    }
}

pub fn read_lines(path: &str) -> impl Iterator<Item = String> {
    let f = File::open(path).unwrap_or_else(|e| {
        eprintln!("cannot open {path}: {e}");
        std::process::exit(2)
    });
    BufReader::new(f)
        .lines()
        .map(|l| l.expect("read"))
        .filter(|l| !l.trim().is_empty())
}

pub fn writer(path: &str) -> BufWriter<File> {
    BufWriter::with_capacity(
        1 << 20,
        File::create(path).unwrap_or_else(|e| {
            eprintln!("cannot create {path}: {e}");
            std::process::exit(2)
        }),
    )
}

pub fn wl(w: &mut impl Write, v: &serde_json::Value) {
    serde_json::to_writer(&mut *w, v).unwrap();
    w.write_all(b"\n").unwrap();
}

/// Command-line `--key value` lookup.
pub fn arg(args: &[String], key: &str) -> Option<String> {
    args.iter()
        .position(|a| a == key)
        .and_then(|i| args.get(i + 1).cloned())
}
pub fn arg_or(args: &[String], key: &str, d: &str) -> String {
    arg(args, key).unwrap_or_else(|| d.to_string())
}
pub fn arg_u64(args: &[String], key: &str, d: u64) -> u64 {
    arg(args, key).map(|s| s.parse().expect("number")).unwrap_or(d)
}

pub fn cps(s: &str) -> Vec<u32> {
    s.chars().map(|c| c as u32).collect()
}
pub fn from_cps(v: &serde_json::Value) -> String {
    v.as_array()
        .map(|a| {
            a.iter()
                .map(|c| char::from_u32(c.as_u64().unwrap() as u32).unwrap())
                .collect()
        })
        .unwrap_or_default()
}
