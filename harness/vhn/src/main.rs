//! The C03 interpreter linked against pest built without memchr.
#[path = "../../vh/src/util.rs"]
#[allow(dead_code)]
mod util;
#[path = "../../vh/src/psm.rs"]
#[allow(dead_code)]
mod psm;

fn main() {
    let args: Vec<String> = std::env::args().collect();
    let rest: Vec<String> = args[1..].to_vec();
    let sub = args.get(1).cloned().unwrap_or_default();
    std::thread::Builder::new()
        .stack_size(1 << 30)
        .spawn(move || match sub.as_str() {
            "psm-replay" => psm::replay(&rest),
            "psm-emit" => psm::emit(&rest),
            _ => std::process::exit(2),
        })
        .unwrap()
        .join()
        .unwrap_or_else(|_| std::process::exit(3));
}
