"""Helpers shared by the grammar-level checks (C01, C05, C06, C08, C12, C15): sharded TLC
generation with MC_PegGen, sharded batch validation with Trace_Peg."""
import json
import os
import re
from concurrent.futures import ThreadPoolExecutor
from vlib import *

_RE_REJ = re.compile(r'<<"REJECTED", "(\w+)", (\d+), (".*")>>\s*$')


def gen_slice(ctx, slice_name, nshards, size=0, length=0, module="MC_PegGen", jobs=8, timeout=3000):
    """Runs MC_PegGen for one slice in `nshards` TLC processes; returns (ndjson path, [TlcResult])."""
    def one(sh):
        cfgname = "%s_%s_%s_%d_run.cfg" % (module, ctx.pid, slice_name, sh)
        with open(os.path.join(SPEC, cfgname), "w") as f:
            f.write("SPECIFICATION Spec\nCONSTANTS\n  Slice = \"%s\"\n  Shard = %d\n  NShards = %d\n"
                    "  SizeOverride = %d\n  LenOverride = %d\nINVARIANT Emit\nCHECK_DEADLOCK FALSE\n"
                    % (slice_name, sh, nshards, size, length))
        try:
            r = tlc(module, cfg=cfgname, workdir=ctx.work, outname="gen_%s_%d.out" % (slice_name, sh),
                    workers=1, timeout=timeout, xmx="3g")
        finally:
            os.remove(os.path.join(SPEC, cfgname))
        if not r.ok:
            raise ToolError("generation slice %s shard %d: %s" % (slice_name, sh, r.violated))
        return r
    with ThreadPoolExecutor(max_workers=jobs) as ex:
        rs = list(ex.map(one, range(nshards)))
    dest = os.path.join(ctx.work, "cases_%s.ndjson" % slice_name)
    n = 0
    with open(dest, "w") as g:
        for r in rs:
            with open(r.out, errors="replace") as f:
                for line in f:
                    if line.startswith('"{'):
                        g.write(json.loads(line))
                        g.write("\n")
                        n += 1
            os.remove(r.out)
    return dest, rs, n


def thin(path, every):
    """Keeps every `every`-th grammar of a generated cases file (quick tiers: the large slices are sampled evenly;
    the thorough tier runs them whole)."""
    if every <= 1:
        return
    lines = nl_lines(path)
    with open(path, "w") as f:
        for l in lines[::every]:
            f.write(l + "\n")


def validate_batches(ctx, module, batches, envkey="BATCH", jobs=8, timeout=3000):
    """Runs TLC trace/batch validation on each file; returns list of (file, TlcResult, rejected, skipped)
    where rejected = [(kind, id, obj)]."""
    def one(path):
        r = tlc(module, workdir=ctx.work, outname=os.path.basename(path) + ".out", workers=1,
                env={envkey: path}, timeout=timeout, xmx="3g")
        rej, skipped = [], 0
        with open(r.out, errors="replace") as f:
            for line in f:
                if line.startswith('<<"REJECTED"'):
                    m = _RE_REJ.match(line)
                    if m:
                        try:
                            rej.append((m.group(1), int(m.group(2)), json.loads(json.loads(m.group(3)))))
                        except Exception:
                            rej.append((m.group(1), int(m.group(2)), {"raw": line[:500]}))
                elif line.startswith('<<"SKIPPED"'):
                    skipped += 1
        if not r.ok and not rej:
            raise ToolError("%s on %s: %s" % (module, path, r.violated))
        return path, r, rej, skipped
    with ThreadPoolExecutor(max_workers=jobs) as ex:
        return list(ex.map(one, batches))


NEST3_BODIES = ('"<" ~ r1 ~ ">"', 'r1 ~ ("," ~ r1)*', '&r1 ~ r1', '!("q" ~ r1) ~ r1 ~ r1?', '&(!"q" ~ r1) ~ r1', '&(&r1 ~ r1) ~ r1', '!(!r1 ~ "q") ~ r1',
                # a sequence abandoned AFTER a rule in it has matched, the failure absorbed by ? / * / | inside the same rule
                '(r1 ~ ";")? ~ r1', '(r1 ~ ";")* ~ r1 ~ "."?', 'r1 ~ ";" ~ "." | r1')
NEST3_INPUTS = ("<x>", "<x-x,x>", "x,x", "x-x", "<x,x y>", "<x, x-xy>", "x", "<xy,xy>", "x,x,x-x", "< x >", "<x\u00e9Z>", "x\u00e9z,x\u00e9z",
                "x;x", "x;x;x,x", "xy;x-x", "x;", "x;x.")


def nest3_file(path, bodies=NEST3_BODIES, inputs=NEST3_INPUTS):
    """Rule calls three deep under every triple of modifiers (150 x len(bodies) grammars): a rule that runs silenced
    (atomic context, look-ahead) with emitting `$` / `!` rules below it, calls under ? and *, a case-insensitive
    multi-byte literal at the bottom."""
    n = 0
    with open(path, "w") as f:
        for t0 in ("", "_", "@", "$", "!"):
            for t1 in ("", "_", "@", "$", "!"):
                for t2 in ("", "_", "@", "$", "!"):
                    # under a normal r2 the bottom rule is also tried as a `!` rule: an optional call that changes the
                    # atomicity as the LAST thing a token-less normal rule does
                    for t3 in (("", "!") if t2 == "" else ("",)):
                        for body0 in bodies:
                            text = 'r0 = %s{ %s }\nr1 = %s{ r2 ~ ("," ~ r2)* }\nr2 = %s{ "x" ~ ("-" ~ "x")? ~ r3? }\nr3 = %s{ "y" | ^"\u00e9z" }\nWHITESPACE = _{ " " }\n' % (t0, body0, t1, t2, t3)
                            f.write(json.dumps({"text": text, "cases": [{"start": "r0", "inp": [ord(c) for c in i], "exp": {"k": "unknown"}} for i in inputs]}) + "\n")
                            n += 1
    return n
