"""C01 - parsing conforms to the documented PEG semantics of the grammar language.

Oracle: spec/PegSemantics.tla with op = FALSE (EvalDoc) on the SOURCE grammar.
spec -> impl: TLC enumerates every grammar of five slices of the grammar space and every input
  up to a length bound, with the expected outcome; the harness sends each grammar through the
  real front-end (parse, validate, optimize) and the real VM and compares acceptance, end
  position, token tree (rule, byte span, nesting, tag) and final stack.
impl -> spec: seeded random grammars (4 rules, bodies up to 10 nodes, all operators, stack
  built-ins, WHITESPACE/COMMENT of every modifier) and inputs up to 8 characters incl. multi-byte
  text run through the real VM; TLC re-evaluates every recorded case with EvalDoc on the AST the
  real reader returned (spec/Trace_Peg.tla)."""
import json
import os
from vlib import *
from pegrun import *

SLICES_QUICK = [("core", 4, 3, 3), ("ws", 8, 2, 3), ("stack", 4, 3, 4), ("counted", 2, 3, 4), ("builtin", 4, 3, 3),
                ("skip", 8, 3, 3), ("factor", 4, 1, 4), ("restore", 6, 1, 4), ("pushws", 1, 1, 4), ("wsov", 2, 3, 4), ("wsref", 4, 2, 3), ("wsmod", 2, 1, 4), ("wspred", 1, 1, 4)]
# the same slices read with the grammar-extras feature on (native one-or-more, PUSH_LITERAL, tags), plus the
# slice that exists only there; replayed on a harness built with --features extras
XSLICES_QUICK = [("xtag", 4, 3, 3), ("xcore", 2, 3, 3), ("xws", 4, 2, 3), ("xcounted", 2, 3, 4), ("xstack", 2, 3, 4),
                 ("xrestore", 3, 1, 4), ("xpushws", 1, 1, 4), ("xfactor", 2, 1, 4)]
XSLICES_THOROUGH = [("xtag", 12, 4, 4), ("xcore", 12, 4, 4), ("xws", 12, 3, 3), ("xcounted", 8, 4, 4), ("xstack", 12, 4, 4),
                    ("xrestore", 8, 1, 5), ("xpushws", 2, 1, 5), ("xfactor", 8, 1, 5)]
SLICES_THOROUGH = [("core", 12, 4, 4), ("ws", 12, 3, 3), ("stack", 12, 4, 4), ("counted", 8, 4, 4), ("builtin", 12, 4, 3),
                   ("skip", 12, 4, 4), ("factor", 8, 1, 5), ("restore", 8, 1, 5), ("pushws", 2, 1, 5), ("wsov", 4, 3, 4), ("wsref", 8, 3, 3), ("wsmod", 2, 1, 4), ("wspred", 1, 1, 4)]


def classify(m):
    """Cause attribution for known findings (DESIGN.md section 9); computed by the harness."""
    return {"cause": m.get("cause", "unknown")}


def run(ctx):
    quick = ctx.tier == "quick"
    vh = cargo_build()
    vhx = cargo_build(features="extras", variant="extras")
    _run(ctx, vh, "default", SLICES_QUICK if quick else SLICES_THOROUGH, 8 if quick else 48, 250 if quick else 500)
    _run(ctx, vhx, "grammar-extras", XSLICES_QUICK if quick else XSLICES_THOROUGH, 4 if quick else 24, 250 if quick else 500)


def _run(ctx, vh, label, slices, nb, per):
    quick = ctx.tier == "quick"
    ctx.cov["rule"] = ("(1) every grammar of the slices core/ws/stack/counted/builtin of MC_PegGen (all expression trees "
                       "up to the slice's size over its leaves/operators x modifiers x WHITESPACE/COMMENT variants) x every "
                       "input over the slice's alphabet up to its length bound; (2) seeded random grammars x random inputs. "
                       "A grammar is non-trivial if at least one input is accepted and one rejected; distinct = distinct "
                       "(grammar text, start rule, input) triples.")
    # ---- spec -> impl
    total_cases = 0
    for (name, shards, size, length) in slices:
        cases, rs, n = gen_slice(ctx, name, shards, size, length, jobs=12)
        for r in rs:
            ctx.cov["states"] += r.distinct
            ctx.cov["transitions"] += r.generated
        rep = run_json([vh, "c01-replay", "--cases", cases], timeout=3000)
        ctx.cov["engines"].append({"name": "MC_PegGen slice %s (size<=%d, inputs<=%d; %s)" % (name, size, length, label),
                                   "role": "behaviour generation + replay on real front-end/VM",
                                   "grammars_enumerated": n, "grammars_accepted_by_pest": rep["grammars"],
                                   "rejected_by_validator": rep["rejected_by_validator"], "cases_replayed": rep["cases"],
                                   "skipped_divergent": rep["skipped_divergent"], "nontrivial_grammars": rep["nontrivial_grammars"]})
        ctx.cov["evaluations"] += rep["cases"]
        ctx.cov["distinct_nontrivial"] += rep["nontrivial_grammars"]
        total_cases += rep["cases"]
        if rep.get("sample"):
            ctx.sample({"kind": "TLC-generated case replayed on the real VM", "slice": name, **rep["sample"]}, cap=3)
        for m in rep["mismatches"]:
            d = {"kind": "replay", "spec": "PegSemantics(EvalDoc)", "slice": name, "features": label}
            d.update(m)
            d.update(classify(m))
            ctx.violation(d)
        if rep["mismatch_count"] > len(rep["mismatches"]):
            ctx.notes.append("slice %s: %d mismatches in total" % (name, rep["mismatch_count"]))
        os.remove(cases)
    ctx.cov["exhaustive"] = True
    ctx.cov["exhaustive_scope"] = "each MC_PegGen slice: all grammars of the slice x all inputs up to the length bound"
    # ---- impl -> spec
    batches = []
    summaries = []
    for i in range(nb):
        out = os.path.join(ctx.work, "rec%s%d.ndjson" % (label[0], i))
        summaries.append(run_json([vh, "c01-emit", "--seed", str(ctx.seed * 100 + i), "--grammars", str(per), "--inputs", "30",
                                   "--out", out], timeout=3000))
        batches.append(out)
    res = validate_batches(ctx, "Trace_Peg", batches, jobs=12)
    tot = {"grammars": 0, "cases": 0, "dropped_call_limit": 0, "rejected_by_validator": 0}
    for s in summaries:
        for k in tot:
            tot[k] += s[k]
    skipped = 0
    for (path, r, rej, sk) in res:
        ctx.cov["states"] += r.distinct
        ctx.cov["transitions"] += r.generated
        skipped += sk
        recs = None
        for (kind, gid, obj) in rej:
            if recs is None:
                recs = {x["id"]: x for x in read_ndjson(path)}
            rec = recs.get(gid, {})
            d = {"kind": "trace", "spec": "Trace_Peg/PegSemantics(EvalDoc)", "features": label, "grammar": rec.get("text"),
                 "start": obj.get("start"), "inp": obj.get("inp"),
                 "input": "".join(chr(c) for c in obj.get("inp", [])),
                 "expected": obj.get("expected"), "observed": obj.get("got")}
            f = os.path.join(ctx.work, "attr.json")
            json.dump({"text": rec.get("text"), "cases": [{"start": obj.get("start"), "inp": obj.get("inp"), "exp": obj.get("expected")}]}, open(f, "w"))
            rep = run_json([vh, "c01-replay", "--cases", f])
            if rep["mismatches"]:
                d["cause"] = rep["mismatches"][0].get("cause", "unknown")
            ctx.violation(d)
    ctx.cov["traces_validated_against_impl"] += tot["cases"] - skipped
    ctx.cov["evaluations"] += tot["cases"] - skipped
    ctx.cov["distinct_nontrivial"] += tot["grammars"]
    ctx.cov["engines"].append({"name": "Trace_Peg (%s)" % label, "role": "recorded real parses re-evaluated by TLC with EvalDoc",
                               "random_grammars": tot["grammars"], "recorded_parses": tot["cases"],
                               "not_compared_divergent_or_fuel": skipped,
                               "dropped_call_limit_or_deep": tot["dropped_call_limit"],
                               "generated_grammars_rejected_by_validator": tot["rejected_by_validator"]})
    first = read_ndjson(batches[0], 1)[0]
    ctx.sample({"kind": "recorded real parse validated by TLC", "grammar": first["text"], "case": first["cases"][min(3, len(first["cases"]) - 1)]})
    for b in batches:
        os.remove(b)
    if label != "default":
        return
    ctx.assumptions += ["node tags (grammar-extras) are not compared: they are outside what the property states",
                        "Unicode property rules are an uninterpreted predicate table taken from pest::unicode for the run's alphabet (C16 checks the tables)",
                        "parses that reach the harness's call limit of 20000 or need more than 3000 counted calls are dropped, not compared",
                        "grammars the real validator rejects are skipped; grammars whose evaluation diverges in the model are not compared (C06)"]


def replay(ctx, path):
    body = json.load(open(path))
    vh = cargo_build(features="extras", variant="extras") if body.get("features") == "grammar-extras" else cargo_build()
    g = body.get("grammar")
    rec = {"text": g, "cases": [{"start": body["start"], "inp": body["inp"], "exp": body["expected"]}]}
    f = os.path.join(ctx.work, "case.json")
    json.dump(rec, open(f, "w"))
    rep = run_json([vh, "c01-replay", "--cases", f])
    if rep["mismatch_count"]:
        print("VIOLATION property=C01 replay=%s" % path)
        return 1
    print("replay: case agrees with the specification on the current tree")
    return 0
