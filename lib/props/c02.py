"""C02 - the generated parser and the interpreting VM agree on every grammar and input.

At check time a scratch crate with one #[derive(Parser)] #[grammar_inline] module per grammar is
generated and compiled against /repo's working tree; every (grammar, start rule, input) is run on
the derived parser and on the VM built from the same text, and TLC (spec/Trace_Backends.tla)
requires identical outcomes - token pairs with tags, end and stack on success; error position and
expected/unexpected rule NAMES on failure - and agreement of both with PegSemantics where the
documented outcome is available.  Grammars: samples of every MC_PegGen slice (with all inputs of
the slice), the `shadow` slice (user rules named like non-keyword built-ins), WHITESPACE/COMMENT
of every modifier, stack operations, built-in and Unicode rules, and seeded random grammars."""
import json
import os
from vlib import *
from pegrun import *
import gencrate

SLICES_QUICK = [("ws", 4, 2, 3, 40), ("wsmod", 2, 1, 4, 400), ("wspred", 1, 1, 4, 130), ("wsov", 2, 3, 4, 30), ("wsref", 2, 3, 3, 120), ("pushws", 1, 1, 5, 40), ("shadow", 2, 3, 3, 25), ("core", 2, 3, 3, 15), ("stack", 2, 3, 4, 15), ("builtin", 2, 3, 3, 15),
                ("counted", 2, 3, 4, 10), ("skip", 4, 3, 3, 12), ("factor", 2, 1, 4, 12), ("restore", 4, 1, 4, 12)]
SLICES_THOROUGH = [("ws", 8, 3, 3, 300), ("wsmod", 2, 1, 4, 400), ("wspred", 1, 1, 4, 130), ("wsov", 4, 3, 4, 150), ("wsref", 4, 3, 3, 600), ("pushws", 2, 1, 5, 120), ("shadow", 4, 3, 3, 120), ("core", 8, 4, 4, 150), ("stack", 8, 4, 4, 150), ("builtin", 8, 4, 3, 120),
                   ("counted", 4, 4, 4, 100), ("skip", 8, 4, 4, 120), ("factor", 4, 1, 5, 120), ("restore", 8, 1, 5, 120)]


def _bundled_texts(which, quick, seed):
    """Texts for a bundled grammar: pieces of the repository's example documents / test inputs, short hand-written
    fragments, and single-character edits of the short ones."""
    import random
    import re
    rnd = random.Random(seed)
    base = []
    g = os.path.join(REPO, "grammars")
    def lines_of(path):
        try:
            return open(path, encoding="utf-8").read().splitlines()
        except Exception:
            return []
    if which == "toml":
        ls = [l for l in lines_of(os.path.join(g, "tests", "examples.toml"))]
        for i in range(len(ls)):
            base.append(ls[i] + "\n")
            base.append("\n".join(ls[i:i + 3]) + "\n")
        base += ['a = 1', 'a.b = "x"', '[t]\nk = true', '[[a.b]]\nx = 1979-05-27T07:32:00Z', "s = \'\'\'x\'\'\'", 'a = [1, [2, 3], "x"]', 'a = {b = 1, c = "d"}',
                 'k = 0x1F', 'f = -1.5e+10', 'd = 1979-05-27', 't = 07:32:00.5', '# only a comment', 'a = """\nx\\\n  y"""', '"quoted key" = 1', 'a=1\r\nb=2\r\n']
    elif which == "http":
        for f in (os.path.join(g, "tests", "examples.http"), os.path.join(g, "benches", "requests.http")):
            txt = "\n".join(lines_of(f))
            for block in re.split(r"\n\n+", txt):
                ls = block.split("\n")
                short = [l[:60] for l in ls[:4]]
                base.append("\n".join(short) + "\n\n")
                base.append(ls[0][:80] + "\n\n")
        base += ["GET / HTTP/1.1\n\n", "POST /a HTTP/1.0\r\nHost: x\r\n\r\n", "PUT /x  HTTP/2\nA: b\nC: d\n\n", "DELETE /\n\n", "GET /a HTTP/1.1\n###\nGET /b HTTP/1.1\n\n",
                 "get / HTTP/1.1\n\n", "GET / HTTP/\n\n", "GET  /  HTTP/1.1\nX:y\n\n"]
    else:
        src = "\n".join(lines_of(os.path.join(g, "tests", "sql.rs")) + lines_of(os.path.join(g, "src", "lib.rs")))
        for m in re.finditer(r'input:\s*(?:r#)?"((?:[^"\\]|\\.)*)"', src):
            t = m.group(1).encode("utf-8").decode("unicode_escape", errors="ignore") if "\\" in m.group(1) else m.group(1)
            base.append(t)
        base += ["select * from t", "select a, b from t where a = 1 and b <> 'x'", "insert into t values (1, 'a')", "delete from t where a in (1, 2)",
                 "explain select 1", "create table t (a int primary key, b text) distributed by (a)", "drop table t", "select a from t1 join t2 on t1.a = t2.b",
                 "select count(*) from t group by a having a > 1", "select 1 union all select 2", "values (1), (2)", "SELECT \"A\" FROM \"T\"",
                 "select a as b from t order by a desc", "select cast(a as int) from t", "select a from t where b is not null", "create user u with password 'p'",
                 "select not a, -1, 1.5e3 from t", "select a || b from t", "select * from t where a between 1 and 2"]
    base = [b for b in dict.fromkeys(base) if 0 < len(b) <= 200]
    out = []
    for b in base:
        out.append({"text": b, "top_only": len(b) > 48})
    short = [b for b in base if len(b) <= 48]
    rnd.shuffle(short)
    alphabet = list(" \n\t\"'=[]{}().,#*-+:/<>|_aZ09\u00e9\r\\")
    for b in short[: (25 if quick else 400)]:
        for p in range(len(b)):
            out.append({"text": b[:p] + b[p + 1:], "top_only": True})
            c = alphabet[rnd.randrange(len(alphabet))]
            out.append({"text": b[:p] + c + b[p + 1:], "top_only": True})
            if p % 3 == 0:
                out.append({"text": b[:p] + c + b[p:], "top_only": True})
        out.append({"text": b[: len(b) // 2], "top_only": False})
    return [dict(x, text=[ord(c) for c in x["text"]]) for x in out]


def _bundled(ctx, vh, quick):
    """The grammars bundled with pest (TOML, SQL, HTTP) as a workload: compiled derived parser (pest_grammars) = VM over
    the current .pest file on every (rule, text), and on a sample = the TLA+ semantics of the file (Trace_Bootstrap)."""
    tot = 0
    for which in ("toml", "http", "sql"):
        texts = os.path.join(ctx.work, "bundled_%s_texts.ndjson" % which)
        recs = _bundled_texts(which, quick, ctx.seed)
        with open(texts, "w") as f:
            for r in recs:
                f.write(json.dumps(r) + "\n")
        out = os.path.join(ctx.work, "bundled_%s.ndjson" % which)
        gram = os.path.join(ctx.work, "bundled_%s_grammar.ndjson" % which)
        s = run_json([vh, "bundled-emit", "--which", which, "--texts", texts, "--out", out, "--grammar-out", gram,
                      "--doc-every", "60" if quick else "20"], timeout=6000)
        os.remove(texts)
        lines = nl_lines(out)
        os.remove(out)
        parts = []
        for p in range(12):
            sub = lines[p::12]
            if sub:
                pf = "%s.%d" % (out, p)
                open(pf, "w").write("\n".join(sub) + "\n")
                parts.append(pf)
        from concurrent.futures import ThreadPoolExecutor
        def val(path):
            return path, tlc("Trace_Bootstrap", workdir=ctx.work, outname=os.path.basename(path) + ".out", workers=1,
                             env={"BATCH": path, "GRAMMAR": gram}, timeout=12000, xmx="3g")
        with ThreadPoolExecutor(max_workers=12) as ex:
            res = list(ex.map(val, parts))
        import re as _re
        seen = {}
        for (path, r) in res:
            ctx.cov["states"] += r.distinct
            ctx.cov["transitions"] += r.generated
            rej = []
            with open(r.out, errors="replace") as f:
                for line in f:
                    m = _re.match(r'<<"REJECTED", "(\w+)", (\d+), (".*")>>\s*$', line)
                    if m:
                        rej.append((m.group(1), json.loads(json.loads(m.group(3)))))
            if not r.ok and not rej:
                raise ToolError("Trace_Bootstrap on %s: %s" % (which, r.violated))
            for (kind, obj) in rej:
                key = (kind, obj.get("start"))
                seen[key] = seen.get(key, 0) + 1
                if seen[key] <= 2:
                    ctx.violation({"kind": "trace", "spec": "Trace_Bootstrap (bundled grammar %s.pest)" % which, "which": kind, "bundled": which,
                                   "start": obj.get("start"), "inp": obj.get("inp"), "input": "".join(chr(c) for c in obj.get("inp", [])),
                                   "derived_parser_in_pest_grammars": obj.get("checked_in"), "vm_over_current_file": obj.get("vm")})
            os.remove(path)
            os.remove(r.out)
        ctx.cov["engines"].append({"name": "bundled grammar %s.pest" % which, "role": "pest_grammars' derived parser = VM over the current file; PegSemantics on a sample", **s})
        tot += s["cases"]
    return tot


def run(ctx):
    quick = ctx.tier == "quick"
    vh = cargo_build()
    ctx.cov["rule"] = ("(grammar, start, input) triples run on both back-ends: a deterministic sample of every MC_PegGen slice x ALL inputs "
                       "of the slice, plus seeded random grammars x 25 random inputs per rule. Non-trivial = the VM parse fails (error position "
                       "and expected/unexpected sets are compared) or yields at least two pairs; distinct = distinct triples.")
    lists = []
    gi = 0
    for (name, shards, size, length, take) in (SLICES_QUICK if quick else SLICES_THOROUGH):
        cases, rs, n = gen_slice(ctx, name, shards, size, length, jobs=12)
        for r in rs:
            ctx.cov["states"] += r.distinct
            ctx.cov["transitions"] += r.generated
        lf = os.path.join(ctx.work, "list_%s.ndjson" % name)
        s = run_json([vh, "grammar-list", "--cases", cases, "--max", str(take), "--seed", str(ctx.seed), "--gi0", str(gi), "--out", lf])
        os.remove(cases)
        gi = s["next_gi"]
        lists.append(lf)
    nrand = 40 if quick else 600
    lf = os.path.join(ctx.work, "list_random.ndjson")
    s = run_json([vh, "grammar-list", "--seed", str(ctx.seed), "--grammars", str(nrand), "--gi0", str(gi), "--out", lf])
    gi = s["next_gi"]
    lists.append(lf)
    # every advertised Unicode property name as a rule, on the first / middle / last member of every property and
    # their neighbours (C16 checks the tables themselves; here only that the two back-ends resolve every name alike)
    lf = os.path.join(ctx.work, "list_unicode.ndjson")
    s = run_json([vh, "grammar-list", "--unicode", "--gi0", str(gi), "--out", lf])
    gi = s["next_gi"]
    lists.append(lf)
    allrecs = []
    for lf in lists:
        allrecs += read_ndjson(lf)
    # crates of at most 200 grammars each
    per = 200
    chunks = [allrecs[i:i + per] for i in range(0, len(allrecs), per)]
    tot = {"grammars": 0, "cases": 0, "dropped": 0, "failing_parses": 0}
    batches = []
    for ci, chunk in enumerate(chunks):
        for j, rec in enumerate(chunk):
            rec["gi"] = j
        runner = gencrate.build("%s_%d" % (ctx.pid, ci), [r["text"] for r in chunk])
        lf = os.path.join(ctx.work, "chunk_%d.ndjson" % ci)
        with open(lf, "w") as f:
            for rec in chunk:
                f.write(json.dumps(rec) + "\n")
        out = os.path.join(ctx.work, "both_%d.ndjson" % ci)
        s = run_json([runner, "both", "--list", lf, "--out", out], timeout=6000)
        for k in tot:
            tot[k] += s[k]
        # split for parallel TLC
        lines = []
        for line in nl_lines(out):
            rec = json.loads(line)
            if len(rec["cases"]) <= 4000:
                lines.append(line)
            else:       # a grammar with very many cases (the Unicode-name grammar) becomes several records
                cs = rec["cases"]
                for i in range(0, len(cs), 4000):
                    lines.append(json.dumps(dict(rec, cases=cs[i:i + 4000])))
        os.remove(out)
        parts = 8
        for p in range(parts):
            sub = lines[p::parts]
            if sub:
                pf = "%s.%d" % (out, p)
                open(pf, "w").write("\n".join(sub) + "\n")
                batches.append(pf)
    res = validate_batches(ctx, "Trace_Backends", batches, jobs=12, timeout=6000)
    for (path, r, rej, sk) in res:
        ctx.cov["states"] += r.distinct
        ctx.cov["transitions"] += r.generated
        recs = None
        seen = {}
        for (kind, gid, obj) in rej:
            if recs is None:
                recs = {x["id"]: x for x in read_ndjson(path)}
            rec = recs[gid]
            seen[(kind, gid)] = seen.get((kind, gid), 0) + 1
            if seen[(kind, gid)] > 2:
                continue
            d = {"kind": "trace", "spec": "Trace_Backends", "which": kind, "grammar": rec["text"],
                 "start": obj.get("start"), "inp": obj.get("inp"), "input": "".join(chr(c) for c in obj.get("inp", [])),
                 "vm": obj.get("vm"), "generated": obj.get("gen")}
            if kind == "semantics":
                # both back-ends agree with each other but not with the documented semantics: whose doing? (the optimizer's
                # list pass is a known finding of C01 / C05; the attribution is C01's - the pipeline recomposed without it)
                exp = next((c.get("exp") for c in rec["cases"] if c["start"] == obj.get("start") and c["inp"] == obj.get("inp") and "exp" in c), None)
                if exp is not None:
                    f = os.path.join(ctx.work, "attr.json")
                    json.dump({"text": rec["text"], "cases": [{"start": obj.get("start"), "inp": obj.get("inp"), "exp": exp}]}, open(f, "w"))
                    rep = run_json([vh, "c01-replay", "--cases", f])
                    if rep["mismatches"]:
                        d["cause"] = rep["mismatches"][0].get("cause", "unknown")
            ctx.violation(d)
        if len(ctx.cov["samples"]) < 3:
            x = read_ndjson(path, 1)[0]
            c = next((c for c in x["cases"] if c["vm"]["k"] == "fail"), x["cases"][0])
            ctx.sample({"kind": "one case on both back-ends, validated by TLC", "grammar": x["text"], "case": c})
        os.remove(path)
    nb = _bundled(ctx, vh, quick)
    ctx.cov["traces_validated_against_impl"] = tot["cases"] + nb
    ctx.cov["evaluations"] = (tot["cases"] + nb) * 2
    ctx.cov["distinct_nontrivial"] = tot["failing_parses"]
    ctx.cov["totals"] = tot
    ctx.cov["engines"].append({"name": "Trace_Backends", "role": "equality of derived parser and VM outcomes (+ PegSemantics where known)",
                               "derived_parser_modules_compiled": len(allrecs)})
    ctx.assumptions += ["default features only in this round", "rules are addressed by name (Debug of the generated Rule enum)",
                        "parses that reach the call limit of 20000 or need more than 3000 counted calls on the VM are dropped"]


def replay(ctx, path):
    cargo_build()
    body = json.load(open(path))
    rec = {"gi": 0, "text": body["grammar"], "cases": [{"start": body["start"], "inp": body["inp"]}]}
    runner = gencrate.build("%s_r" % ctx.pid.replace("-", "_"), [rec["text"]])
    lf = os.path.join(ctx.work, "l.ndjson")
    open(lf, "w").write(json.dumps(rec) + "\n")
    out = os.path.join(ctx.work, "b.ndjson")
    run_json([runner, "both", "--list", lf, "--out", out])
    res = validate_batches(ctx, "Trace_Backends", [out], jobs=1)
    if any(rej for (_, _, rej, _) in res):
        print("VIOLATION property=C02 replay=%s" % path)
        return 1
    print("replay: both back-ends agree on the current tree")
    return 0
