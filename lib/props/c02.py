"""C02 - the generated parser and the interpreting VM agree on every grammar and input.

At check time a scratch crate with one #[derive(Parser)] #[grammar_inline] module per grammar is
generated and compiled against /repo's working tree; every (grammar, start rule, input) is run on
the derived parser and on the VM built from the same text, and TLC (spec/Trace_Backends.tla)
requires identical outcomes - token pairs with tags, end and stack on success; error position and
expected/unexpected rule NAMES on failure - and agreement of both with PegSemantics where the
documented outcome is available.  Grammars: samples of every MC_PegGen slice (with all inputs of
the slice), the `shadow` slice (user rules named like non-keyword built-ins), WHITESPACE/COMMENT
of every modifier, stack operations, built-in and Unicode rules, and seeded random grammars."""
import json
import os
from vlib import *
from pegrun import *
import gencrate

SLICES_QUICK = [("ws", 4, 2, 3, 40), ("wsov", 2, 3, 4, 30), ("pushws", 1, 1, 5, 40), ("shadow", 2, 3, 3, 25), ("core", 2, 3, 3, 15), ("stack", 2, 3, 4, 15), ("builtin", 2, 3, 3, 15),
                ("counted", 2, 3, 4, 10), ("skip", 4, 3, 3, 12), ("factor", 2, 1, 4, 12), ("restore", 4, 1, 4, 12)]
SLICES_THOROUGH = [("ws", 8, 3, 3, 300), ("wsov", 4, 3, 4, 150), ("pushws", 2, 1, 5, 120), ("shadow", 4, 3, 3, 120), ("core", 8, 4, 4, 150), ("stack", 8, 4, 4, 150), ("builtin", 8, 4, 3, 120),
                   ("counted", 4, 4, 4, 100), ("skip", 8, 4, 4, 120), ("factor", 4, 1, 5, 120), ("restore", 8, 1, 5, 120)]


def run(ctx):
    quick = ctx.tier == "quick"
    vh = cargo_build()
    ctx.cov["rule"] = ("(grammar, start, input) triples run on both back-ends: a deterministic sample of every MC_PegGen slice x ALL inputs "
                       "of the slice, plus seeded random grammars x 25 random inputs per rule. Non-trivial = the VM parse fails (error position "
                       "and expected/unexpected sets are compared) or yields at least two pairs; distinct = distinct triples.")
    lists = []
    gi = 0
    for (name, shards, size, length, take) in (SLICES_QUICK if quick else SLICES_THOROUGH):
        cases, rs, n = gen_slice(ctx, name, shards, size, length, jobs=12)
        for r in rs:
            ctx.cov["states"] += r.distinct
            ctx.cov["transitions"] += r.generated
        lf = os.path.join(ctx.work, "list_%s.ndjson" % name)
        s = run_json([vh, "grammar-list", "--cases", cases, "--max", str(take), "--seed", str(ctx.seed), "--gi0", str(gi), "--out", lf])
        os.remove(cases)
        gi = s["next_gi"]
        lists.append(lf)
    nrand = 40 if quick else 600
    lf = os.path.join(ctx.work, "list_random.ndjson")
    s = run_json([vh, "grammar-list", "--seed", str(ctx.seed), "--grammars", str(nrand), "--gi0", str(gi), "--out", lf])
    gi = s["next_gi"]
    lists.append(lf)
    # every advertised Unicode property name as a rule, on the first / middle / last member of every property and
    # their neighbours (C16 checks the tables themselves; here only that the two back-ends resolve every name alike)
    lf = os.path.join(ctx.work, "list_unicode.ndjson")
    s = run_json([vh, "grammar-list", "--unicode", "--gi0", str(gi), "--out", lf])
    gi = s["next_gi"]
    lists.append(lf)
    allrecs = []
    for lf in lists:
        allrecs += read_ndjson(lf)
    # crates of at most 200 grammars each
    per = 200
    chunks = [allrecs[i:i + per] for i in range(0, len(allrecs), per)]
    tot = {"grammars": 0, "cases": 0, "dropped": 0, "failing_parses": 0}
    batches = []
    for ci, chunk in enumerate(chunks):
        for j, rec in enumerate(chunk):
            rec["gi"] = j
        runner = gencrate.build("%s_%d" % (ctx.pid, ci), [r["text"] for r in chunk])
        lf = os.path.join(ctx.work, "chunk_%d.ndjson" % ci)
        with open(lf, "w") as f:
            for rec in chunk:
                f.write(json.dumps(rec) + "\n")
        out = os.path.join(ctx.work, "both_%d.ndjson" % ci)
        s = run_json([runner, "both", "--list", lf, "--out", out], timeout=6000)
        for k in tot:
            tot[k] += s[k]
        # split for parallel TLC
        lines = []
        for line in open(out).read().splitlines():
            rec = json.loads(line)
            if len(rec["cases"]) <= 4000:
                lines.append(line)
            else:       # a grammar with very many cases (the Unicode-name grammar) becomes several records
                cs = rec["cases"]
                for i in range(0, len(cs), 4000):
                    lines.append(json.dumps(dict(rec, cases=cs[i:i + 4000])))
        os.remove(out)
        parts = 8
        for p in range(parts):
            sub = lines[p::parts]
            if sub:
                pf = "%s.%d" % (out, p)
                open(pf, "w").write("\n".join(sub) + "\n")
                batches.append(pf)
    res = validate_batches(ctx, "Trace_Backends", batches, jobs=12, timeout=6000)
    for (path, r, rej, sk) in res:
        ctx.cov["states"] += r.distinct
        ctx.cov["transitions"] += r.generated
        recs = None
        seen = {}
        for (kind, gid, obj) in rej:
            if recs is None:
                recs = {x["id"]: x for x in read_ndjson(path)}
            rec = recs[gid]
            seen[(kind, gid)] = seen.get((kind, gid), 0) + 1
            if seen[(kind, gid)] > 2:
                continue
            ctx.violation({"kind": "trace", "spec": "Trace_Backends", "which": kind, "grammar": rec["text"],
                           "start": obj.get("start"), "inp": obj.get("inp"), "input": "".join(chr(c) for c in obj.get("inp", [])),
                           "vm": obj.get("vm"), "generated": obj.get("gen")})
        if len(ctx.cov["samples"]) < 3:
            x = read_ndjson(path, 1)[0]
            c = next((c for c in x["cases"] if c["vm"]["k"] == "fail"), x["cases"][0])
            ctx.sample({"kind": "one case on both back-ends, validated by TLC", "grammar": x["text"], "case": c})
        os.remove(path)
    ctx.cov["traces_validated_against_impl"] = tot["cases"]
    ctx.cov["evaluations"] = tot["cases"] * 2
    ctx.cov["distinct_nontrivial"] = tot["failing_parses"]
    ctx.cov["totals"] = tot
    ctx.cov["engines"].append({"name": "Trace_Backends", "role": "equality of derived parser and VM outcomes (+ PegSemantics where known)",
                               "derived_parser_modules_compiled": len(allrecs)})
    ctx.assumptions += ["default features only in this round", "rules are addressed by name (Debug of the generated Rule enum)",
                        "parses that reach the call limit of 20000 or need more than 3000 counted calls on the VM are dropped"]


def replay(ctx, path):
    cargo_build()
    body = json.load(open(path))
    rec = {"gi": 0, "text": body["grammar"], "cases": [{"start": body["start"], "inp": body["inp"]}]}
    runner = gencrate.build("%s_r" % ctx.pid.replace("-", "_"), [rec["text"]])
    lf = os.path.join(ctx.work, "l.ndjson")
    open(lf, "w").write(json.dumps(rec) + "\n")
    out = os.path.join(ctx.work, "b.ndjson")
    run_json([runner, "both", "--list", lf, "--out", out])
    res = validate_batches(ctx, "Trace_Backends", [out], jobs=1)
    if any(rej for (_, _, rej, _) in res):
        print("VIOLATION property=C02 replay=%s" % path)
        return 1
    print("replay: both back-ends agree on the current tree")
    return 0
