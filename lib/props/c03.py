"""C03 - parser-state combinators are all-or-nothing and match exactly.

spec/ParserStateMachine.tla is a direct executable reading of the documented contracts of the public
ParserState operations, over PROGRAMS (finite trees of calls: rule, sequence, optional, repeat,
lookahead, atomic, stack_push, restore_on_err, and_then / or_else chains, and every primitive).
spec -> impl: TLC enumerates every program up to MaxSize over three operation slices and every input
up to MaxLen, checks on the model the contracts the property names, and prints the expected
observable outcome (Ok/Err, byte position, token queue, stack, look-ahead, atomicity); the harness
interprets each program with real closures on a real ParserState - linked with pest's default
features and, in a second binary, WITHOUT memchr - and compares.  The `until` slice enumerates
skip_until with 0..3 needles incl. the empty needle, shared first bytes and multi-byte first
characters.  MC_PsmNest grows programs one symbol per TLC step - fresh pushes and drops (up to 8-9 symbols), or the
matching family push a / push b / match_string / peek / pop / match_peek / match_pop / peek slices
(up to 5-6 symbols, every input over {a, b} up to length 3) - between nested sequence / restore_on_err /
lookahead / optional checkpoints, and every reachable program is replayed.
impl -> spec: random programs of depth up to 8 are run on both builds and every recorded
outcome is re-computed by TLC (Trace_Psm)."""
import json
import os
from concurrent.futures import ThreadPoolExecutor
from vlib import *
from pegrun import *

SL_QUICK = [("core", 4, 3, 16), ("stack", 4, 3, 16), ("until", 2, 4, 4), ("prims", 2, 2, 2)]
SL_THOROUGH = [("core", 4, 4, 16), ("stack", 4, 4, 16), ("until", 2, 5, 8), ("prims", 3, 3, 8)]


def run(ctx):
    quick = ctx.tier == "quick"
    vh = cargo_build()
    vhn = cargo_build(pkg="vhn")
    ctx.cov["rule"] = ("programs: every tree of ParserState calls up to the slice's size over its operations (core: matching primitives, ok/err, "
                       "tag_node and sequence/optional/repeat/lookahead(+/-)/atomic(A/C)/rule; stack: push literal, peek, pop, drop, match_peek, "
                       "match_pop, peek slices and sequence/optional/repeat/lookahead/stack_push/restore_on_err/rule; until: skip_until with 0..3 "
                       "needles) chained with and_then / or_else x every input up to the length bound; plus random programs of depth <= 8. Each case "
                       "runs on both builds (default features, no memchr). Non-trivial = a program with both Ok and Err (or panic) outcomes.")
    total = nontriv = 0
    for (name, size, length, nsh) in (SL_QUICK if quick else SL_THOROUGH):
        def one(sh):
            cfgname = "MC_PsmGen_%s_%d_run.cfg" % (name, sh)
            with open(os.path.join(SPEC, cfgname), "w") as f:
                f.write("SPECIFICATION Spec\nCONSTANTS\n  Slice = \"%s\"\n  MaxSize = %d\n  MaxLen = %d\n  Shard = %d\n  NShards = %d\n"
                        "INVARIANTS SequenceAllOrNothing LookaheadNeutral RuleEmitsBalancedPair PrimitivesExact StateRestored Emit\nCHECK_DEADLOCK FALSE\n"
                        % (name, size, length, sh, nsh))
            try:
                r = tlc("MC_PsmGen", cfg=cfgname, workdir=ctx.work, outname="psm_%s_%d.out" % (name, sh), workers=1, timeout=6000, xmx="3g")
            finally:
                os.remove(os.path.join(SPEC, cfgname))
            if not r.ok:
                # a contract violated ON THE MODEL: the machine itself is wrong - a tool error, not a verdict about pest
                raise ToolError("MC_PsmGen %s/%d: %s" % (name, sh, r.violated))
            cases = os.path.join(ctx.work, "psm_cases_%s_%d.ndjson" % (name, sh))
            printed_json(r.out, cases)
            os.remove(r.out)
            reps = []
            for (label, binp) in (("default", vh), ("no-memchr", vhn)):
                reps.append((label, run_json([binp, "psm-replay", "--cases", cases], timeout=6000)))
            os.remove(cases)
            return r, reps
        with ThreadPoolExecutor(max_workers=12) as ex:
            rs = list(ex.map(one, range(nsh)))
        for (r, reps) in rs:
            ctx.cov["states"] += r.distinct
            ctx.cov["transitions"] += r.generated
            for (label, rep) in reps:
                total += rep["cases"]
                if label == "default":
                    nontriv += rep["nontrivial_programs"]
                for m in rep["mismatches"][:5]:
                    d = {"kind": "replay", "spec": "ParserStateMachine", "slice": name, "build": label}
                    d.update(m)
                    ctx.violation(d)
                if rep["mismatch_count"] > 5:
                    ctx.violations += rep["mismatch_count"] - 5
                if rep.get("sample") and len(ctx.cov["samples"]) < 2 and label == "default":
                    ctx.sample({"kind": "TLC-generated program replayed on the real ParserState", "slice": name, **rep["sample"]})
    # nested checkpoints: programs grown symbol by symbol as TLC states (MC_PsmNest), two families
    allclosers = '{"seq", "seqfail", "restore", "restorefail", "lookpos", "looknegfail", "optfail", "optseqfail", "rep"}'
    fams = [("fresh", '{"push", "drop"}', allclosers, 8 if quick else 9, 3 if quick else 4, 0, 1),
            ("match", '{"pusha", "pushb", "stra", "peek", "pop", "matchpeek", "matchpop", "slice01", "sliceneg"}',
             '{"seq", "seqfail", "optfail", "looknegfail", "lookpos"}', 5 if quick else 6, 2, 3, 1),
            # what is emitted, kept and truncated when rules sit under atomic modes, look-ahead and failing sequences;
            # a wrapper costs one symbol here, so four nested wrappers are within reach
            ("tokens", '{"stra", "any"}',
             '{"seqfail", "optseqfail", "atomA", "atomC", "rule1", "rule2", "looknegfail", "lookpos", "rep"}' if quick else
             '{"seq", "seqfail", "optfail", "optseqfail", "atomA", "atomC", "atomN", "rule1", "rule2", "looknegfail", "lookpos", "rep", "stackpush"}',
             4, 4, 2, 0)]
    for (fam, prims, closers, syms, depth, ilen, ocost) in fams:
        cfgname = "MC_PsmNest_%s_run.cfg" % fam
        with open(os.path.join(SPEC, cfgname), "w") as f:
            f.write("SPECIFICATION Spec\nCONSTANTS\n  MaxSyms = %d\n  MaxDepth = %d\n  Closers = %s\n  Prims = %s\n  InputLen = %d\n  OpenCost = %d\n"
                    "INVARIANTS NestedAllOrNothing NestedLookaheadNeutral PrimFailsInPlace NoSnapshotLeft Emit\nCHECK_DEADLOCK FALSE\n"
                    % (syms, depth, closers, prims, ilen, ocost))
        try:
            r = tlc("MC_PsmNest", cfg=cfgname, workdir=ctx.work, outname="psm_nest_%s.out" % fam, workers=12, timeout=6000, xmx="8g")
        finally:
            os.remove(os.path.join(SPEC, cfgname))
        if not r.ok:
            raise ToolError("MC_PsmNest %s: %s" % (fam, r.violated))
        ctx.cov["states"] += r.distinct
        ctx.cov["transitions"] += r.generated
        cases = os.path.join(ctx.work, "psm_cases_nest_%s.ndjson" % fam)
        printed_json(r.out, cases)
        os.remove(r.out)
        for (label, binp) in (("default", vh), ("no-memchr", vhn)):
            rep = run_json([binp, "psm-replay", "--cases", cases], timeout=6000)
            total += rep["cases"]
            for m in rep["mismatches"][:5]:
                d = {"kind": "replay", "spec": "ParserStateMachine", "slice": "nest-" + fam, "build": label}
                d.update(m)
                ctx.violation(d)
            if rep["mismatch_count"] > 5:
                ctx.violations += rep["mismatch_count"] - 5
            ctx.cov["engines"].append({"name": "MC_PsmNest (%s family, <= %d symbols)" % (fam, syms),
                                       "role": "programs of nested checkpoints grown as TLC states, replayed on the real ParserState (%s build)" % label,
                                       "programs": rep["programs"], "cases": rep["cases"], "mismatches": rep["mismatch_count"]})
        os.remove(cases)
    ctx.cov["exhaustive"] = True
    ctx.cov["exhaustive_scope"] = "each MC_PsmGen slice: all programs up to the size bound x all inputs up to the length bound x both builds"
    batches = []
    nprog = 0
    for i in range(4 if quick else 40):
        for (label, binp) in (("default", vh), ("no-memchr", vhn)):
            out = os.path.join(ctx.work, "psm_rand_%s_%d.ndjson" % (label, i))
            s = run_json([binp, "psm-emit", "--seed", str(ctx.seed * 100 + i), "--programs", "400" if quick else "2000", "--out", out])
            nprog += s["programs"]
            total += s["cases"]
            batches.append(out)
    res = validate_batches(ctx, "Trace_Psm", batches, jobs=12, timeout=6000)
    for (path, r, rej, sk) in res:
        ctx.cov["states"] += r.distinct
        ctx.cov["transitions"] += r.generated
        for (kind, rid, obj) in rej[:5]:
            ctx.violation({"kind": "trace", "spec": "Trace_Psm/ParserStateMachine", "build": "no-memchr" if "no-memchr" in path else "default",
                           "program": obj.get("prog"), "inp": obj.get("inp"), "input": "".join(chr(c) for c in obj.get("inp", [])),
                           "expected": obj.get("expected"), "observed": obj.get("got")})
        if len(rej) > 5:
            ctx.violations += len(rej) - 5
        if len(ctx.cov["samples"]) < 3:
            x = read_ndjson(path, 5)[-1]
            ctx.sample({"kind": "random program run on the real ParserState, validated by TLC", "program": x["prog"], "case": x["cases"][0]})
        os.remove(path)
    ctx.cov["traces_validated_against_impl"] = nprog
    ctx.cov["evaluations"] = total
    ctx.cov["distinct_nontrivial"] = nontriv + nprog
    ctx.assumptions += ["the final state of a program is read through hook H1 (position, token queue, stack, look-ahead, atomicity) when the closure handed to pest::state returns",
                        "intermediate states are covered because every sub-program is itself an enumerated program",
                        "a repeat whose body succeeds without changing the state does not return; such cases (model: div) are not run"]


def replay(ctx, path):
    vh = cargo_build()
    vhn = cargo_build(pkg="vhn")
    body = json.load(open(path))
    cf = os.path.join(ctx.work, "c.ndjson")
    open(cf, "w").write(json.dumps({"prog": body["program"], "cases": [{"inp": body["inp"], "exp": body["expected"]}]}) + "\n")
    bad = 0
    for b in (vh, vhn):
        bad += run_json([b, "psm-replay", "--cases", cf])["mismatch_count"]
    if bad:
        print("VIOLATION property=C03 replay=%s" % path)
        return 1
    print("replay: the real ParserState gives the contract machine's outcome on the current tree")
    return 0
