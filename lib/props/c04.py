"""C04 - the token stream is a well-formed tree and every Pairs view agrees with it.

spec/TokenTree.tla: a forest of pairs determines everything Pairs / Pair / FlatPairs / Tokens can
show; iteration from both ends is a double-ended queue over the corresponding list.
spec -> impl: TLC enumerates every well-formed forest with up to MaxNodes pairs over the input
"a<e-acute>b" and every interleaving of next/next_back of length MaxOps; the harness realises each
forest twice - with PairsBuilder and by a real parse that produces it - and records every static
view at the top and at every pair (as_str, as_span, into_inner, tokens, Pairs::single, line_col,
Display plain and {:#}, Debug, to_json - the three textual views parsed back into trees -, concat,
flatten, find_tagged, peek, len, is_empty) and every iterator run (returned item, len, size_hint
and peek after every step).  TLC validates every answer (Trace_TokenTree), including that the real
token stream is well formed.  impl -> spec: random forests (<= 40 pairs, depth <= 8, multi-byte
text) with 50-step iterator runs.  Grammar-driven parses: the token queue every successful VM parse of the grammar
workloads (enumerated slices with every modifier, random grammars) leaves behind is validated as a well-formed stream
(Trace_Streams)."""
import json
import os
from concurrent.futures import ThreadPoolExecutor
from vlib import *
from pegrun import *


def run(ctx):
    quick = ctx.tier == "quick"
    vh = cargo_build()
    maxnodes, maxops, nsh, stride = (3, 4, 8, 3) if quick else (4, 5, 16, 4)
    ctx.cov["rule"] = ("trees: every well-formed forest with <= %d pairs over 'a<e-acute>b' (a deterministic 1-in-%d sample is observed) x every "
                       "next/next_back interleaving of length %d on Pairs, FlatPairs and Tokens, each tree built with PairsBuilder and by a real "
                       "parse; plus seeded random forests up to 40 pairs with three 0..50-step runs each. Non-trivial = a forest with nesting or "
                       "more than one top-level pair; distinct = distinct (forest, construction)." % (maxnodes, stride, maxops))

    def one(sh):
        cfgname = "MC_TokenTreeGen_%d_run.cfg" % sh
        with open(os.path.join(SPEC, cfgname), "w") as f:
            f.write("SPECIFICATION Spec\nCONSTANTS\n  MaxNodes = %d\n  MaxOps = %d\n  Shard = %d\n  NShards = %d\nINVARIANTS GenWellFormed Emit\nCHECK_DEADLOCK FALSE\n"
                    % (maxnodes, maxops, sh, nsh))
        try:
            r = tlc("MC_TokenTreeGen", cfg=cfgname, workdir=ctx.work, outname="ttgen_%d.out" % sh, workers=1, timeout=6000, xmx="3g")
        finally:
            os.remove(os.path.join(SPEC, cfgname))
        if not r.ok:
            raise ToolError("MC_TokenTreeGen shard %d: %s" % (sh, r.violated))
        cases = os.path.join(ctx.work, "tt_cases_%d.ndjson" % sh)
        n = 0
        with open(r.out, errors="replace") as f, open(cases, "w") as g:
            for line in f:
                if line.startswith('"{'):
                    n += 1
                    if (n + ctx.seed) % stride == 0:
                        g.write(json.loads(line))
                        g.write("\n")
        os.remove(r.out)
        obs = os.path.join(ctx.work, "tt_obs_%d.ndjson" % sh)
        s = run_json([vh, "tt-observe", "--cases", cases, "--out", obs], timeout=6000)
        os.remove(cases)
        return r, obs, s, n
    with ThreadPoolExecutor(max_workers=8) as ex:
        rs = list(ex.map(one, range(nsh)))
    batches = []
    trees = runs = enumerated = 0
    for (r, obs, s, n) in rs:
        ctx.cov["states"] += r.distinct
        ctx.cov["transitions"] += r.generated
        trees += s["trees_observed"]
        runs += s["iterator_runs"]
        enumerated += n
        batches.append(obs)
    ctx.cov["engines"].append({"name": "MC_TokenTreeGen", "role": "forest + interleaving enumeration", "forests_enumerated": enumerated,
                               "tree_constructions_observed": trees, "iterator_runs": runs})
    rtrees = rruns = 0
    for i in range(3 if quick else 30):
        obs = os.path.join(ctx.work, "tt_rand_%d.ndjson" % i)
        s = run_json([vh, "tt-observe", "--seed", str(ctx.seed * 100 + i), "--trees", "60" if quick else "200", "--out", obs], timeout=6000)
        rtrees += s["trees_observed"]
        rruns += s["iterator_runs"]
        batches.append(obs)
    res = validate_batches(ctx, "Trace_TokenTree", batches, jobs=8, timeout=6000)
    nontriv = 0
    for (path, r, rej, sk) in res:
        ctx.cov["states"] += r.distinct
        ctx.cov["transitions"] += r.generated
        for x in read_ndjson(path):
            if len(x["forest"]) > 1 or any(n["c"] for n in x["forest"]):
                nontriv += 1
        for (kind, rid, obj) in rej[:4]:
            ctx.violation({"kind": "trace", "spec": "Trace_TokenTree/TokenTree", "input_code_points": obj.get("inp"),
                           "forest": obj.get("forest"), "construction": obj.get("src"), "first_wrong_answer": obj.get("first")})
        if len(rej) > 4:
            ctx.violations += len(rej) - 4
        if len(ctx.cov["samples"]) < 2:
            x = read_ndjson(path, 30)[-1]
            ctx.sample({"kind": "observed tree validated by TLC", "forest": x["forest"], "construction": x["src"],
                        "one_iterator_run": (x["runs"] or [None])[-1]})
        os.remove(path)
    # ---- the first sentence on grammar-driven parses: the queue a successful VM parse leaves behind (hook H1)
    sbatches = []
    stot = {"grammars": 0, "cases": 0, "tokens": 0}
    for (name, shards, size, length) in ([("wsmod", 2, 1, 4), ("core", 2, 3, 3), ("skip", 4, 3, 3)] if quick else [("wsmod", 2, 1, 4), ("core", 8, 4, 3), ("ws", 8, 3, 3), ("wsref", 4, 3, 3), ("skip", 8, 3, 4)]):
        cases, rs, n = gen_slice(ctx, name, shards, size, length, jobs=12)
        for r in rs:
            ctx.cov["states"] += r.distinct
            ctx.cov["transitions"] += r.generated
        if name == "skip" and not quick:
            thin(cases, 4)      # with inputs up to length 4 the whole slice is several GB of streams
        out = os.path.join(ctx.work, "str_%s.ndjson" % name)
        s = run_json([vh, "streams-emit", "--cases", cases, "--out", out], timeout=6000)
        os.remove(cases)
        for k in stot:
            stot[k] += s[k]
        sbatches.append(out)
    # rule calls three deep under every triple of modifiers: a rule that runs silenced (atomic context, look-ahead)
    # with emitting rules below it is where the Start / End bookkeeping of `rule` can go wrong
    nest = os.path.join(ctx.work, "nest3.ndjson")
    nest3_file(nest)
    out = os.path.join(ctx.work, "str_nest3.ndjson")
    s = run_json([vh, "streams-emit", "--cases", nest, "--out", out], timeout=6000)
    os.remove(nest)
    for k in stot:
        stot[k] += s[k]
    sbatches.append(out)
    for i in range(3 if quick else 24):
        out = os.path.join(ctx.work, "str_rand_%d.ndjson" % i)
        s = run_json([vh, "streams-emit", "--seed", str(ctx.seed * 100 + 70 + i), "--grammars", "400", "--out", out], timeout=6000)
        for k in stot:
            stot[k] += s[k]
        sbatches.append(out)
    parts = []
    for b in sbatches:
        lines = nl_lines(b)
        os.remove(b)
        for j in range(4):
            sub = lines[j::4]
            if sub:
                pf = "%s.%d" % (b, j)
                open(pf, "w").write("\n".join(sub) + "\n")
                parts.append(pf)
    for (path, r, rej, sk) in validate_batches(ctx, "Trace_Streams", parts, jobs=12, timeout=6000):
        ctx.cov["states"] += r.distinct
        ctx.cov["transitions"] += r.generated
        recs = None
        seen = {}
        for (kind, gid, obj) in rej:
            if recs is None:
                recs = {x["id"]: x for x in read_ndjson(path)}
            seen[gid] = seen.get(gid, 0) + 1
            if seen[gid] > 1:
                continue
            ctx.violation({"kind": "trace", "spec": "Trace_Streams/TokenTree", "grammar": recs[gid]["text"], "start": obj.get("start"),
                           "inp": obj.get("inp"), "input": "".join(chr(c) for c in obj.get("inp", [])), "token_queue": obj.get("q")})
        os.remove(path)
    ctx.cov["engines"].append({"name": "Trace_Streams", "role": "token queue of successful grammar-driven VM parses is a well-formed stream", **stot})
    ctx.cov["traces_validated_against_impl"] = trees + rtrees + stot["cases"]
    ctx.cov["evaluations"] = runs + rruns + stot["cases"]
    ctx.cov["distinct_nontrivial"] = nontriv
    ctx.cov["engines"].append({"name": "Trace_TokenTree", "role": "every recorded answer checked against TokenTree.tla",
                               "random_tree_constructions": rtrees, "random_iterator_runs": rruns})
    ctx.assumptions += ["the three textual views are parsed back by trusted glue (Display {:#}: 45 lines, Debug: 50 lines, to_json: 20 lines)",
                        "rules are u8 values; the 'real parse' construction drives pest::state with rule/skip/tag_node calls that produce the forest",
                        "grammar-driven parses: the queue is read through hook H1 when the parse returns (kind, byte position, rule)"]


def replay(ctx, path):
    vh = cargo_build()
    body = json.load(open(path))
    cf = os.path.join(ctx.work, "c.ndjson")
    open(cf, "w").write(json.dumps({"inp": body["input_code_points"], "forest": body["forest"],
                                    "ops": ["NNBB", "BNBN", "BBBB", "NNNN", "NBBN", "BBNN", "NBNB", "BNNB"]}) + "\n")
    obs = os.path.join(ctx.work, "o.ndjson")
    run_json([vh, "tt-observe", "--cases", cf, "--out", obs])
    res = validate_batches(ctx, "Trace_TokenTree", [obs], jobs=1)
    if any(rej for (_, _, rej, _) in res):
        print("VIOLATION property=C04 replay=%s" % path)
        return 1
    print("replay: every view of this tree agrees with TokenTree on the current tree")
    return 0
