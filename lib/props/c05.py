"""C05 - optimizer passes preserve the meaning of every grammar.

The REAL passes (rotate, skip, unroll, concatenate, factor, list, conversion + restore_on_err;
hook H3) are applied one at a time by the harness; TLC (spec/Trace_Opt.tla) evaluates
PegSemantics on both sides of every pass that changed the grammar, for every start rule and
every input over the grammar's alphabet (plus one foreign character) up to a length bound:
EvalDoc(before) = EvalDoc(after) for the Expr passes, EvalDoc = EvalOp(final) for conversion +
restore_on_err and for the whole pipeline.  Grammars: every grammar of the MC_PegGen slices
(enumerated by TLC; the slices skip/factor/restore/counted are the shapes the passes rewrite) and
seeded random grammars.  The expected AST of a pass is never compared."""
import collections
import json
import os
from vlib import *
from pegrun import *

SLICES_QUICK = [("factor", 4, 1), ("skip", 4, 3), ("restore", 4, 1), ("counted", 2, 3), ("stack", 2, 3), ("ws", 4, 2)]
SLICES_THOROUGH = [("factor", 8, 1), ("skip", 12, 4), ("restore", 8, 1), ("counted", 8, 4), ("stack", 12, 4), ("ws", 12, 3), ("core", 12, 4)]


XSLICES_QUICK = [("xrestore", 4, 1), ("xtag", 4, 3), ("xcounted", 2, 3), ("xfactor", 2, 1), ("xpushws", 1, 1), ("xstack", 2, 3)]
XSLICES_THOROUGH = [("xrestore", 8, 1), ("xtag", 12, 4), ("xcounted", 8, 4), ("xfactor", 8, 1), ("xpushws", 2, 1), ("xstack", 12, 4), ("xws", 12, 3), ("xcore", 12, 4)]


def run(ctx):
    quick = ctx.tier == "quick"
    vh = cargo_build()
    vhx = cargo_build(features="extras", variant="extras")
    maxlen = 3 if quick else 4
    ctx.cov["rule"] = ("grammars: all grammars of the MC_PegGen slices factor/skip/restore/counted/stack/ws (TLC-enumerated) plus seeded "
                       "random grammars; for each, every start rule x every input over (<=4 characters of the grammar's alphabet + one "
                       "foreign character) up to length %d, on both sides of every pass that changed the grammar. An evaluation is one "
                       "(grammar, pass, start, input) comparison; a grammar is non-trivial if at least one pass changed it." % maxlen)
    batches = []
    fired = collections.Counter()
    ngrammars = 0
    plan = [(vh, x) for x in (SLICES_QUICK if quick else SLICES_THOROUGH)] + [(vhx, x) for x in (XSLICES_QUICK if quick else XSLICES_THOROUGH)]
    for (binp, (name, shards, size)) in plan:
        cases, rs, n = gen_slice(ctx, name, shards, size, 1, jobs=12)
        for r in rs:
            ctx.cov["states"] += r.distinct
            ctx.cov["transitions"] += r.generated
        if name in ("ws", "xws"):
            # the skip-rule variants multiply this slice and the passes act on the main rule: an even sample (unthinned,
            # the size-3 slice keeps every TLC shard busy for well over an hour)
            thin(cases, 8 if quick else 6)
        # split into several batch files so that TLC shards run in parallel
        parts = 6 if quick else 12
        lines = nl_lines(cases)
        os.remove(cases)
        for p in range(parts):
            sub = lines[p::parts]
            if not sub:
                continue
            cf = os.path.join(ctx.work, "g_%s_%d.ndjson" % (name, p))
            open(cf, "w").write("\n".join(sub) + "\n")
            out = os.path.join(ctx.work, "st_%s_%d.ndjson" % (name, p))
            s = run_json([binp, "c05-emit", "--cases", cf, "--maxlen", str(maxlen), "--out", out])
            os.remove(cf)
            if s["recomposition_differs_from_optimize"]:
                ctx.notes.append("model_drift: recomposed pipeline differs from optimize() on %d grammars of slice %s" % (s["recomposition_differs_from_optimize"], name))
            fired.update(s["fired"])
            ngrammars += s["grammars"]
            batches.append(out)
    nrand = 6 if quick else 36
    for i in range(nrand + nrand // 2):
        out = os.path.join(ctx.work, "st_rand_%d.ndjson" % i)
        s = run_json([vh if i < nrand else vhx, "c05-emit", "--seed", str(ctx.seed * 100 + i), "--grammars", "120" if quick else "300",
                      "--maxlen", str(maxlen), "--out", out])
        fired.update(s["fired"])
        ngrammars += s["grammars"]
        batches.append(out)
    res = validate_batches(ctx, "Trace_Opt", batches, jobs=12, timeout=6000)
    evals = 0
    for (path, r, rej, sk) in res:
        ctx.cov["states"] += r.distinct
        ctx.cov["transitions"] += r.generated
        recs = None
        passlevel = set()
        for (kind, gid, obj) in rej:
            if kind not in ("pipeline",):
                passlevel.add((gid, obj.get("start"), json.dumps(obj.get("inp"))))
        per_grammar = collections.Counter()
        for (kind, gid, obj) in rej:
            if recs is None:
                recs = {x["id"]: x for x in read_ndjson(path)}
            rec = recs[gid]
            # a pipeline-level rejection already explained by a pass-level one is the same discrepancy
            if kind == "pipeline" and (gid, obj.get("start"), json.dumps(obj.get("inp"))) in passlevel:
                continue
            per_grammar[(kind, gid)] += 1
            if per_grammar[(kind, gid)] > 1:
                continue       # one report per (grammar, pass)
            ctx.violation({"kind": "trace", "spec": "Trace_Opt/PegSemantics", "pass": kind,
                           "features": "grammar-extras" if rec.get("extras") else "default",
                           "lister_shape": bool(rec.get("lister_shape")) if kind == "list" else False,
                           "grammar": rec["text"], "start": obj.get("start"), "inp": obj.get("inp"),
                           "input": "".join(chr(c) for c in obj.get("inp", [])),
                           "before_pass": obj.get("before"), "after_pass": obj.get("after")})
        if recs is None and len(ctx.cov["samples"]) < 3:
            first = read_ndjson(path, 3)[-1]
            chg = [s["pass"] for s in first["stages"] if s["changed"]]
            ctx.sample({"kind": "grammar with the real passes' outputs validated by TLC", "grammar": first["text"],
                        "passes_that_changed_it": chg, "alphabet": first["alpha"], "maxlen": first["maxlen"],
                        "final": first["final"]})
    # evaluations: per grammar (#changed stages + 2) * starts * inputs -- measured from the batch files
    nontrivial = 0
    for b in batches:
        for rec in read_ndjson(b):
            ninp = sum(len(rec["alpha"]) ** i for i in range(rec["maxlen"] + 1))
            ch = sum(1 for s in rec["stages"] if s["changed"])
            evals += (ch + 2) * len(rec["starts"]) * ninp
            if ch or rec["final"] != rec["stages"][-1]["g"]:
                nontrivial += 1
        os.remove(b)
    ctx.cov["evaluations"] = evals
    ctx.cov["distinct_nontrivial"] = nontrivial
    ctx.cov["traces_validated_against_impl"] = ngrammars
    ctx.cov["grammars_on_which_each_real_pass_fired"] = dict(fired)
    ctx.cov["engines"].append({"name": "Trace_Opt", "role": "semantic equivalence across each real optimizer pass, evaluated by TLC",
                               "grammars": ngrammars})
    for p in ("rotate", "skip", "unroll", "concatenate", "factor", "list", "restore_on_err"):
        if not fired.get(p):
            ctx.notes.append("uncovered_pass: %s never changed a grammar in this run" % p)
    ctx.assumptions += ["both feature sets are run: default and grammar-extras (x-slices; node tags are not compared)",
                        "inputs are exhaustive only up to length %d over at most 5 characters per grammar" % maxlen,
                        "quick tier: every 8th grammar of the ws slices (they are dominated by skip-rule variants); thorough: all",
                        "EvalOp's account of the primitives' stack effects is itself validated against the real VM by C01 (VM(final) = EvalDoc(source)) and C03",
                        "cases whose evaluation diverges on either side of a pass are not compared"]


def replay(ctx, path):
    body = json.load(open(path))
    vh = cargo_build(features="extras", variant="extras") if body.get("features") == "grammar-extras" else cargo_build()
    cf = os.path.join(ctx.work, "g.ndjson")
    open(cf, "w").write(json.dumps({"text": body["grammar"], "g": {}}) + "\n")
    out = os.path.join(ctx.work, "st.ndjson")
    run_json([vh, "c05-emit", "--cases", cf, "--maxlen", str(max(3, len(body.get("inp", [])))), "--out", out])
    res = validate_batches(ctx, "Trace_Opt", [out], jobs=1)
    for (p, r, rej, sk) in res:
        if any(k == body["pass"] for (k, _, _) in rej):
            print("VIOLATION property=C05 replay=%s" % path)
            return 1
    print("replay: all passes preserve the meaning of this grammar on the current tree")
    return 0
