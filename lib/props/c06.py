"""C06 - validation guarantees termination and accepts well-formed grammars.

spec/Validator.tla defines Diverges (from the executable semantics: a rule re-entered at the same
position, a repetition iterating without progress) and Guarded (the property's syntactic
sufficient condition).  spec -> impl: TLC enumerates stack-free grammars with every operator
around every possible leftmost rule reference (and WHITESPACE/COMMENT bodies), computes both
verdicts and a shortest diverging input; the real validator must reject every diverging grammar
(an accepted one is shown non-terminating on the real VM with the witness) and accept every
Guarded one.  impl -> spec: seeded random stack-free grammars with the real validator's verdict
are re-judged by TLC (spec/Trace_Validator.tla)."""
import json
import os
from concurrent.futures import ThreadPoolExecutor
from vlib import *
from pegrun import *


def gen_val(ctx, slice_name, nshards, size):
    def one(sh):
        cfgname = "MC_Validator_%s_%d_run.cfg" % (slice_name, sh)
        with open(os.path.join(SPEC, cfgname), "w") as f:
            f.write("SPECIFICATION Spec\nCONSTANTS\n  Slice = \"%s\"\n  Shard = %d\n  NShards = %d\n  SizeOverride = %d\n"
                    "INVARIANT Emit\nCHECK_DEADLOCK FALSE\n" % (slice_name, sh, nshards, size))
        try:
            r = tlc("MC_Validator", cfg=cfgname, workdir=ctx.work, outname="val_%s_%d.out" % (slice_name, sh), workers=1,
                    timeout=6000, xmx="3g")
        finally:
            os.remove(os.path.join(SPEC, cfgname))
        if not r.ok:
            raise ToolError("MC_Validator %s/%d: %s" % (slice_name, sh, r.violated))
        return r
    with ThreadPoolExecutor(max_workers=12) as ex:
        rs = list(ex.map(one, range(nshards)))
    dest = os.path.join(ctx.work, "val_%s.ndjson" % slice_name)
    n = 0
    with open(dest, "w") as g:
        for r in rs:
            n += printed_json_append(r.out, g)
            os.remove(r.out)
    return dest, rs, n


def printed_json_append(outpath, g):
    n = 0
    with open(outpath, errors="replace") as f:
        for line in f:
            if line.startswith('"{'):
                g.write(json.loads(line))
                g.write("\n")
                n += 1
    return n


def run(ctx):
    quick = ctx.tier == "quick"
    vh = cargo_build()
    ctx.cov["rule"] = ("stack-free grammars m = {E}, r1 = {body}: E every expression up to size 3 (quick) / 4 (thorough) over leaves "
                       "{\"a\", \"\", m, r1, ANY, EOI}, unary {? * + ! & {2} {1,} {0,} {,2} {1,2} {0,2}} and ~ |, body from a pool of 12 incl. "
                       "mutual recursion; plus WHITESPACE/COMMENT bodies from a pool of 10; plus seeded random stack-free grammars. "
                       "A grammar is non-trivial if it contains a rule reference in leftmost position or a repetition; distinct = distinct grammars.")
    total = {"grammars": 0, "accepted": 0, "rejected": 0, "model_diverges": 0, "model_guarded": 0}
    for (name, shards, size) in ([("rec", 12, 3), ("ws", 1, 1), ("twice", 2, 1), ("shadow", 1, 1), ("wsna", 1, 1), ("self", 2, 1), ("three", 1, 1)] if quick else [("rec", 16, 4), ("ws", 1, 1), ("twice", 2, 1), ("shadow", 1, 1), ("wsna", 1, 1), ("self", 2, 1), ("three", 1, 1)]):
        cases, rs, n = gen_val(ctx, name, shards, size)
        for r in rs:
            ctx.cov["states"] += r.distinct
            ctx.cov["transitions"] += r.generated
        rep = run_json([vh, "c06-replay", "--cases", cases], timeout=6000)
        os.remove(cases)
        for k in total:
            total[k] += rep[k]
        ctx.cov["engines"].append({"name": "MC_Validator slice %s (size<=%d)" % (name, size), "role": "Diverges/Guarded computed by TLC, replayed on the real validator + VM",
                                   **{k: rep[k] for k in ("grammars", "accepted", "rejected", "model_diverges", "model_guarded", "terminating_spot_runs")}})
        if rep.get("sample"):
            ctx.sample({"kind": "TLC-judged grammar replayed on the real validator", **rep["sample"]}, cap=2)
        for v in rep["violations"]:
            d = {"kind": "replay", "spec": "Validator (%s)" % v["which"]}
            d.update(v)
            ctx.violation(d)
        extra = rep["soundness_violations"] + rep["completeness_violations"] - len(rep["violations"])
        if extra > 0:
            ctx.notes.append("%d further violations not written out" % extra)
            ctx.violations += extra
    # grammar-extras: the same question for expressions under a node tag, on the build with the feature on
    vhx = cargo_build(features="extras", variant="extras")
    cases, rs, n = gen_val(ctx, "tag", 4, 3)
    for r in rs:
        ctx.cov["states"] += r.distinct
        ctx.cov["transitions"] += r.generated
    rep = run_json([vhx, "c06-replay", "--cases", cases], timeout=6000)
    os.remove(cases)
    for k in total:
        total[k] += rep[k]
    ctx.cov["engines"].append({"name": "MC_Validator slice tag (grammar-extras build)", "role": "Diverges/Guarded computed by TLC, replayed on the real validator + VM built with grammar-extras",
                               **{k: rep[k] for k in ("grammars", "accepted", "rejected", "model_diverges", "model_guarded", "terminating_spot_runs")}})
    for v in rep["violations"]:
        d = {"kind": "replay", "spec": "Validator (%s), grammar-extras" % v["which"], "features": "grammar-extras"}
        d.update(v)
        ctx.violation(d)
    extra = rep["soundness_violations"] + rep["completeness_violations"] - len(rep["violations"])
    if extra > 0:
        ctx.violations += extra
    ctx.cov["exhaustive"] = True
    ctx.cov["exhaustive_scope"] = "all grammars of the MC_Validator slices; divergence searched over all inputs over {a, space} up to length 3"
    # impl -> spec
    batches = []
    nrand = 0
    for i in range(4 if quick else 24):
        out = os.path.join(ctx.work, "vr_%d.ndjson" % i)
        s = run_json([vh, "c06-emit", "--seed", str(ctx.seed * 100 + i), "--grammars", "150" if quick else "400", "--out", out])
        nrand += s["grammars"]
        batches.append(out)
    res = validate_batches(ctx, "Trace_Validator", batches, jobs=12, timeout=6000)
    for (path, r, rej, sk) in res:
        ctx.cov["states"] += r.distinct
        ctx.cov["transitions"] += r.generated
        recs = None
        for (kind, rid, obj) in rej:
            if recs is None:
                recs = {x["id"]: x for x in read_ndjson(path)}
            x = recs[rid]
            d = {"kind": "trace", "spec": "Trace_Validator (%s)" % kind, "which": kind, "grammar": x["text"], "accepted_by_pest": x["accepted"]}
            if kind == "soundness":
                d.update({"start": obj["start"], "inp": obj["inp"], "input": "".join(chr(c) for c in obj["inp"]),
                          "model": "parse diverges"})
                # show it on the real code
                f = os.path.join(ctx.work, "w.ndjson")
                open(f, "w").write(json.dumps({"text": x["text"], "diverges": True, "guarded": False,
                                               "witness": {"start": obj["start"], "inp": obj["inp"]}}) + "\n")
                rr = run_json([vh, "c06-replay", "--cases", f])
                if not rr["soundness_violations"]:
                    ctx.notes.append("model-only divergence (real VM terminated) on %r" % x["text"])
                    continue
                d["observed"] = rr["violations"][0].get("observed")
            ctx.violation(d)
        if len(ctx.cov["samples"]) < 3:
            x = read_ndjson(path, 2)[-1]
            ctx.sample({"kind": "random grammar + real validator verdict, re-judged by TLC", "grammar": x["text"], "accepted": x["accepted"]})
        os.remove(path)
    ctx.cov["traces_validated_against_impl"] = nrand
    ctx.cov["evaluations"] = total["grammars"] + nrand
    ctx.cov["distinct_nontrivial"] = total["model_diverges"] + total["model_guarded"]
    ctx.cov["totals"] = total
    ctx.assumptions += ["divergence is searched over inputs up to length 3 over {a, space} (recursion without progress shows on the empty input)",
                        "only grammars without stack built-ins are judged (the property's domain)",
                        "an accepted grammar that diverges in the model is only reported when the real VM is seen to hit a 100000-call limit on the witness"]


def replay(ctx, path):
    body = json.load(open(path))
    vh = cargo_build(features="extras", variant="extras") if body.get("features") == "grammar-extras" else cargo_build()
    f = os.path.join(ctx.work, "w.ndjson")
    rec = {"text": body["grammar"], "diverges": body.get("which") == "soundness", "guarded": body.get("which") == "completeness",
           "witness": {"start": body.get("start", ""), "inp": body.get("inp", [])}}
    open(f, "w").write(json.dumps(rec) + "\n")
    rr = run_json([vh, "c06-replay", "--cases", f])
    if rr["soundness_violations"] or rr["completeness_violations"]:
        print("VIOLATION property=C06 replay=%s" % path)
        return 1
    print("replay: the validator's verdict agrees with the specification on the current tree")
    return 0
