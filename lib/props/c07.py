"""C07 - the grammar reader reconstructs exactly the grammar that was written.

spec/MetaSyntax.tla is a speller: Text(rules, style) writes abstract rules in pest's concrete
syntax (minimal or full parenthesisation by precedence, five kinds of gaps between tokens incl.
comments, leading `|`, four escape forms, leading zeros, doc comments).  TLC (MC_ReaderGen)
enumerates every rule set r0 = <modifier>{E} with E every expression up to MaxSize over all node
kinds x every style and prints text + abstract rules; the real pest_meta reader (parse +
consume_rules) must return exactly those rules.  impl -> spec: the repository's own .pest files are
re-spelled (their real token sequence re-joined with random legal gaps) and must read back unchanged."""
import json
import os
from concurrent.futures import ThreadPoolExecutor
from vlib import *
from pegrun import *


def run(ctx):
    quick = ctx.tier == "quick"
    vh = cargo_build()
    maxsize, nsh = (3, 12) if quick else (4, 16)
    ctx.cov["rule"] = ("texts = (abstract rule set, style): every expression tree up to size %d over 16 leaves (literals with quote/backslash/"
                       "control/multi-byte characters, ranges, identifiers, PEEK slices), 13 unary forms (? * + & ! PUSH and counted repetitions with "
                       "counts 0, 1, 2, 10, 2147483647) and ~ | x 9 styles; plus 6 re-spellings of each .pest file of the repository. Non-trivial = the "
                       "expression has at least one operator; distinct = distinct texts. Abstract grammars pest itself rejects (decided on a canonical "
                       "spelling) are skipped." % maxsize)

    vhx = cargo_build(features="extras", variant="extras")

    def one(sh):
        # shard -1: the constructs of grammar-extras (MaxSize = 0 in MC_ReaderGen), read by the build with the feature on
        extras = sh < 0
        cfgname = "MC_ReaderGen_%s_run.cfg" % ("x" if extras else str(sh))
        with open(os.path.join(SPEC, cfgname), "w") as f:
            f.write("SPECIFICATION Spec\nCONSTANTS\n  MaxSize = %d\n  Shard = %d\n  NShards = %d\nINVARIANT Emit\nCHECK_DEADLOCK FALSE\n"
                    % ((0, 0, 1) if extras else (maxsize, sh, nsh)))
        try:
            r = tlc("MC_ReaderGen", cfg=cfgname, workdir=ctx.work, outname="rgen_%s.out" % ("x" if extras else str(sh)), workers=1, timeout=6000, xmx="3g")
        finally:
            os.remove(os.path.join(SPEC, cfgname))
        if not r.ok:
            raise ToolError("MC_ReaderGen shard %d: %s" % (sh, r.violated))
        cases = os.path.join(ctx.work, "r_cases_%s.ndjson" % ("x" if extras else str(sh)))
        printed_json(r.out, cases)
        os.remove(r.out)
        rep = run_json([vhx if extras else vh, "reader-replay", "--cases", cases], timeout=6000)
        sample = read_ndjson(cases, 50)[-1]
        os.remove(cases)
        return r, rep, sample
    with ThreadPoolExecutor(max_workers=12) as ex:
        rs = list(ex.map(one, [-1] + list(range(nsh))))
    texts = skipped = 0
    why = {}
    per_cause = {}
    for (ri, (r, rep, sample)) in enumerate(rs):
        if ri == 0:
            ctx.cov["engines"].append({"name": "MC_ReaderGen, grammar-extras constructs on the grammar-extras build", "role": "PUSH_LITERAL and node tags spelled and read back",
                                       "texts_read_back": rep["texts"], "skipped": rep["skipped_not_accepted_by_pest"]})
        ctx.cov["states"] += r.distinct
        ctx.cov["transitions"] += r.generated
        texts += rep["texts"]
        skipped += rep["skipped_not_accepted_by_pest"]
        for (k, v) in rep.get("skipped_why", {}).items():
            why[k] = why.get(k, 0) + v
        for m in rep["mismatches"]:
            d = {"kind": "replay", "spec": "MetaSyntax", "text": m["text"], "text_code_points": m["text_code_points"], "style": m["style"],
                 "written": m["written"], "read": m["read"]}
            if ri == 0:
                d["features"] = "grammar-extras"
            # cause attribution for known findings: a `|` directly after an opening parenthesis
            if m["style"].get("leadin") and isinstance(m["read"], dict) and "error" in m["read"] and "panic" in str(m["read"]["error"]):
                d["cause"] = "leading choice operator inside parentheses panics"
            key = d.get("cause", "other")
            per_cause[key] = per_cause.get(key, 0) + 1
            if per_cause[key] <= 6:
                ctx.violation(d)
        extra = rep["mismatch_count"] - len(rep["mismatches"])
        if extra > 0:
            ctx.notes.append("%d further mismatches in one shard not written out (styles: %s)" % (extra, rep["by_style"]))
        if len(ctx.cov["samples"]) < 2:
            ctx.sample({"kind": "text spelled by TLC, read back by pest_meta", "text": "".join(chr(c) for c in sample["text"]), "rules": sample["rules"]})
    ctx.cov["engines"].append({"name": "MC_ReaderGen", "role": "speller enumeration + replay on the real reader", "texts_read_back": texts,
                               "abstract_grammars_pest_rejects_skipped": skipped, "why_skipped": why})
    ctx.cov["exhaustive"] = True
    ctx.cov["exhaustive_scope"] = "all expression trees up to size %d over the stated leaves/operators x 9 styles" % maxsize
    out = os.path.join(ctx.work, "respell.ndjson")
    s = run_json([vh, "reader-respell", "--seed", str(ctx.seed), "--variants", "6" if quick else "60", "--out", out])
    res = validate_batches(ctx, "Trace_Reader", [out], jobs=1)
    for (path, r, rej, sk) in res:
        ctx.cov["states"] += r.distinct
        ctx.cov["transitions"] += r.generated
        for (kind, rid, obj) in rej[:5]:
            ctx.violation({"kind": "trace", "spec": "Trace_Reader/MetaSyntax", **obj})
    os.remove(out)
    ctx.cov["traces_validated_against_impl"] = s["respellings"]
    ctx.cov["evaluations"] = texts + s["respellings"]
    ctx.cov["distinct_nontrivial"] = texts
    ctx.assumptions += ["node tags and PUSH_LITERAL (grammar-extras) are spelled in a family of their own and read by the build with the feature on",
                        "repetition counts are limited to what fits TLC's 32-bit integers (2147483647 stands for the u32 range)"]


def replay(ctx, path):
    body = json.load(open(path))
    vh = cargo_build(features="extras", variant="extras") if body.get("features") == "grammar-extras" else cargo_build()
    cf = os.path.join(ctx.work, "c.ndjson")
    if "text_code_points" not in body:
        print("replay of re-spellings: re-run the check"); return 2
    open(cf, "w").write(json.dumps({"text": body["text_code_points"], "style": body["style"], "rules": body["written"]}) + "\n")
    rep = run_json([vh, "reader-replay", "--cases", cf])
    if rep["mismatch_count"]:
        print("VIOLATION property=C07 replay=%s" % path)
        return 1
    print("replay: the reader returns the written rules on the current tree")
    return 0
