"""C08 - failure reports point at the furthest failure with sound expectations.

spec/ErrorReport.tla states the property over the attempt history of a parse; the history comes
from the TLA+ semantics (PegSemantics with hist = TRUE logs every rule() call of the evaluation,
failed branches included).  Every FAILING parse recorded from the real code - VM and derived
parsers compiled at check time - must report exactly ErrorReport!Report(history): the position,
the expected and the unexpected rule sets; both lists must be strictly increasing in the rule
type's own order (checked on the real Vec<R>)."""
import json
import os
from vlib import *
from pegrun import *
import gencrate

SLICES_QUICK = [("core", 2, 3, 3, 25), ("ws", 4, 2, 3, 30), ("wsmod", 2, 1, 4, 160), ("wsref", 2, 3, 3, 150), ("builtin", 2, 3, 3, 15), ("factor", 2, 1, 4, 20), ("counted", 2, 3, 4, 10)]
SLICES_THOROUGH = [("core", 8, 4, 4, 250), ("ws", 8, 3, 3, 250), ("wsmod", 2, 1, 4, 400), ("wsref", 4, 3, 3, 600), ("builtin", 8, 4, 3, 120), ("factor", 4, 1, 5, 120), ("counted", 4, 4, 4, 100),
                   ("stack", 8, 4, 4, 100), ("restore", 8, 1, 5, 60)]


def _history_grammars():
    """Reports that depend on what happened EARLIER in the parse: a rule that matched under `!` in an alternative
    the parse then abandoned, progress, and then a rule at the new position that makes several attempts (one of them
    again a match under `!`) and fails - the attempt lists must have been started afresh at the new position."""
    import itertools
    firsts = ['(!k ~ "q" | "k")', '((!k ~ "q")? ~ "k")', '("k" | !k ~ "q")', '(!(k | a) ~ "q" | k)', '(&k ~ "q" | "k")']
    bodies = ['!a ~ "x" | c', '!a ~ "x"', '(!a ~ "x")? ~ c', 'c | !a ~ "x"', '!(a | c) ~ "x" | c', '!a ~ !c ~ "x"', '&a ~ "x" | !c ~ a ~ "y"']
    letters = "kaqxc"
    inputs = [""]
    for n in (1, 2, 3):
        inputs += ["".join(t) for t in itertools.product(letters, repeat=n)]
    recs = []
    for f in firsts:
        for b in bodies:
            text = 'top = { %s ~ r }\nr = { %s }\na = { "a" }\nc = { "c" }\nk = { "k" }\n' % (f, b)
            cases = [{"start": st, "inp": [ord(ch) for ch in i]} for st in ("top", "r") for i in inputs]
            recs.append({"gi": 0, "text": text, "cases": cases})
    return recs


def run(ctx):
    quick = ctx.tier == "quick"
    vh = cargo_build()
    ctx.cov["rule"] = ("failing parses of the real code: (1) seeded random grammars x random inputs on the VM; (2) a sample of every MC_PegGen "
                       "slice x ALL inputs of the slice on the VM and on the derived parser. Non-trivial = a failing parse whose report lists at "
                       "least one rule; distinct = distinct (grammar, start, input, back-end).")
    batches = []
    tot_fail = 0
    # (1) VM on random grammars
    for i in range(6 if quick else 40):
        out = os.path.join(ctx.work, "er_rand_%d.ndjson" % i)
        s = run_json([vh, "c01-emit", "--seed", str(ctx.seed * 100 + 50 + i), "--grammars", "250" if quick else "500", "--inputs", "30", "--out", out], timeout=3000)
        tot_fail += s["fail"]
        # tag the back-end
        lines = []
        for rec in read_ndjson(out):
            for c in rec["cases"]:
                c["backend"] = "vm"
            lines.append(json.dumps(rec))
        open(out, "w").write("\n".join(lines) + "\n")
        batches.append(out)
    # (2) both back-ends on slice samples
    lists = []
    gi = 0
    for (name, shards, size, length, take) in (SLICES_QUICK if quick else SLICES_THOROUGH):
        cases, rs, n = gen_slice(ctx, name, shards, size, length, jobs=12)
        for r in rs:
            ctx.cov["states"] += r.distinct
            ctx.cov["transitions"] += r.generated
        lf = os.path.join(ctx.work, "list_%s.ndjson" % name)
        s = run_json([vh, "grammar-list", "--cases", cases, "--max", str(take), "--seed", str(ctx.seed + 3), "--gi0", str(gi), "--out", lf])
        os.remove(cases)
        gi = s["next_gi"]
        lists.append(lf)
    lf = os.path.join(ctx.work, "list_random.ndjson")
    s = run_json([vh, "grammar-list", "--seed", str(ctx.seed + 7), "--grammars", str(30 if quick else 400), "--gi0", str(gi), "--out", lf])
    lists.append(lf)
    allrecs = []
    for lf in lists:
        allrecs += read_ndjson(lf)
    allrecs += _history_grammars()
    per = 200
    chunks = [allrecs[i:i + per] for i in range(0, len(allrecs), per)]
    gen_cases = 0
    for ci, chunk in enumerate(chunks):
        for j, rec in enumerate(chunk):
            rec["gi"] = j
        runner = gencrate.build("%s_%d" % (ctx.pid, ci), [r["text"] for r in chunk])
        lf = os.path.join(ctx.work, "chunk_%d.ndjson" % ci)
        with open(lf, "w") as f:
            for rec in chunk:
                f.write(json.dumps(rec) + "\n")
        out = os.path.join(ctx.work, "rep_%d.ndjson" % ci)
        s = run_json([runner, "both", "--list", lf, "--out", out, "--reports", "on"], timeout=6000)
        lines = nl_lines(out)
        os.remove(out)
        parts = 6
        for p in range(parts):
            sub = lines[p::parts]
            if sub:
                pf = "%s.%d" % (out, p)
                open(pf, "w").write("\n".join(sub) + "\n")
                batches.append(pf)
                for l in sub:
                    gen_cases += len(json.loads(l)["cases"])
    res = validate_batches(ctx, "Trace_ErrorReport", batches, jobs=12, timeout=6000)
    nontriv = 0
    skipped = 0
    for (path, r, rej, sk) in res:
        ctx.cov["states"] += r.distinct
        ctx.cov["transitions"] += r.generated
        skipped += sk
        recs = None
        seen = {}
        for rec in read_ndjson(path):
            for c in rec["cases"]:
                if c["got"]["k"] == "fail" and (c["got"]["positives"] or c["got"]["negatives"]):
                    nontriv += 1
        for (kind, gid, obj) in rej:
            if recs is None:
                recs = {x["id"]: x for x in read_ndjson(path)}
            rec = recs[gid]
            seen[gid] = seen.get(gid, 0) + 1
            if seen[gid] > 2:
                continue
            ctx.violation({"kind": "trace", "spec": "Trace_ErrorReport/ErrorReport", "grammar": rec["text"], "backend": obj.get("backend"),
                           "start": obj.get("start"), "inp": obj.get("inp"), "input": "".join(chr(c) for c in obj.get("inp", [])),
                           "expected_report": obj.get("expected"), "observed_report": obj.get("got")})
        if len(ctx.cov["samples"]) < 3:
            for x in read_ndjson(path, 30):
                c = next((c for c in x["cases"] if c["got"]["k"] == "fail" and c["got"]["positives"]), None)
                if c:
                    ctx.sample({"kind": "failing parse whose report TLC re-derived from the attempt history", "grammar": x["text"], "case": c})
                    break
        os.remove(path)
    ctx.cov["traces_validated_against_impl"] = tot_fail + gen_cases - skipped
    ctx.cov["evaluations"] = tot_fail + gen_cases
    ctx.cov["distinct_nontrivial"] = nontriv
    ctx.cov["engines"].append({"name": "Trace_ErrorReport", "role": "report = ErrorReport(history of the TLA+ evaluation)",
                               "failing_parses_vm_random": tot_fail, "failing_parses_both_backends_slices": gen_cases,
                               "not_compared_model_does_not_fail_or_diverges": skipped})
    ctx.assumptions += ["the attempt history is that of the TLA+ semantics (validated against the real parser by C01/C02), not one logged by the code",
                        "reports whose variant is the call-limit error belong to C12"]


def replay(ctx, path):
    vh = cargo_build()
    body = json.load(open(path))
    rec = {"gi": 0, "text": body["grammar"], "cases": [{"start": body["start"], "inp": body["inp"]}]}
    runner = gencrate.build("%s_r" % ctx.pid.replace("-", "_"), [rec["text"]])
    lf = os.path.join(ctx.work, "l.ndjson")
    open(lf, "w").write(json.dumps(rec) + "\n")
    out = os.path.join(ctx.work, "b.ndjson")
    run_json([runner, "both", "--list", lf, "--out", out, "--reports", "on"])
    res = validate_batches(ctx, "Trace_ErrorReport", [out], jobs=1)
    if any(rej for (_, _, rej, _) in res):
        print("VIOLATION property=C08 replay=%s" % path)
        return 1
    print("replay: the report is the one ErrorReport derives on the current tree")
    return 0
