"""C09 - the grammar front-end is total: any text yields rules or located errors.

spec/FrontEnd.tla: the pipeline parse -> validate_pairs -> consume_rules -> optimize (-> docs) as a
state machine whose only terminal states are "rules" and "errors" (non-empty, each located inside
the text on UTF-8 boundaries and renderable); "panicked", "aborted" and "timed out" are not states.
Inputs: (a) TLC (MC_FaultGen) writes correct small grammars with the speller of C07 and damages
each with exactly one fault of a catalogue (token dropped / duplicated / swapped / replaced by or
preceded by each of ~50 bad tokens) - ~20 000 texts; (b) seeded mutation of the repository's .pest
files and fuzz seeds (truncation, character and fragment edits, splicing, nesting to 64, up to
20-digit numbers in every numeric position).  Every run of the real front-end is recorded stage by
stage and validated by TLC (Trace_FrontEnd)."""
import json
import os
from concurrent.futures import ThreadPoolExecutor
from vlib import *
from pegrun import *


def _fe_run(vh, args, out):
    """Runs the harness; if the process dies inside the front-end, the marker of the last text it
    began is the text that killed it."""
    import subprocess
    r = subprocess.run([vh, "fe-run"] + args + ["--out", out], stdout=subprocess.PIPE, stderr=subprocess.PIPE, timeout=6000)
    died = None
    if r.returncode != 0:
        last = None
        done = set()
        for line in open(out, errors="replace"):
            try:
                x = json.loads(line)
            except Exception:
                continue
            if "begin" in x:
                last = x
            elif "id" in x:
                done.add(x["id"])
        if last and last["begin"] not in done:
            died = {"text_code_points": last["text"], "exit": r.returncode}
    return died


def run(ctx):
    quick = ctx.tier == "quick"
    vh = cargo_build()
    nsh = 8
    ctx.cov["rule"] = ("texts: (a) 16 small correct grammars written by the TLA+ speller, each damaged by exactly one fault (drop / duplicate / swap of a "
                       "token, replacement by or insertion of each of 51 bad tokens at every position); (b) seeded mutations of the repository's 19 .pest "
                       "files and fuzz seeds. Non-trivial = a text that gets past the first stage (parse) or fails in a later one; distinct = distinct texts.")

    def one(sh):
        cfgname = "MC_FaultGen_%d_run.cfg" % sh
        with open(os.path.join(SPEC, cfgname), "w") as f:
            f.write("SPECIFICATION Spec\nCONSTANTS\n  Shard = %d\n  NShards = %d\nINVARIANT Emit\nCHECK_DEADLOCK FALSE\n" % (sh, nsh))
        try:
            r = tlc("MC_FaultGen", cfg=cfgname, workdir=ctx.work, outname="fgen_%d.out" % sh, workers=1, timeout=6000, xmx="3g")
        finally:
            os.remove(os.path.join(SPEC, cfgname))
        if not r.ok:
            raise ToolError("MC_FaultGen shard %d: %s" % (sh, r.violated))
        cases = os.path.join(ctx.work, "f_cases_%d.ndjson" % sh)
        printed_json(r.out, cases)
        os.remove(r.out)
        out = os.path.join(ctx.work, "f_obs_%d.ndjson" % sh)
        died = _fe_run(vh, ["--cases", cases], out)
        os.remove(cases)
        return r, out, died
    shards = range(nsh) if not quick else range(0, nsh, 2)      # quick: every second shard of the catalogue
    with ThreadPoolExecutor(max_workers=8) as ex:
        rs = list(ex.map(one, shards))
    batches = []
    for (r, out, died) in rs:
        ctx.cov["states"] += r.distinct
        ctx.cov["transitions"] += r.generated
        if died:
            ctx.violation({"kind": "replay", "spec": "FrontEnd", "outcome": "aborted", "text": "".join(chr(c) for c in died["text_code_points"]), **died})
        batches.append(out)
    for i in range(8 if quick else 40):
        out = os.path.join(ctx.work, "f_rand_%d.ndjson" % i)
        died = _fe_run(vh, ["--seed", str(ctx.seed * 100 + i), "--texts", "750" if quick else "1000"], out)
        if died:
            ctx.violation({"kind": "trace", "spec": "FrontEnd", "outcome": "aborted", "text": "".join(chr(c) for c in died["text_code_points"]), **died})
        batches.append(out)
    # strip the begin markers
    total = nontriv = 0
    for b in batches:
        keep = []
        for line in open(b, errors="replace"):
            try:
                x = json.loads(line)
            except Exception:
                continue
            if "id" in x:
                keep.append(line.rstrip("\n"))
                total += 1
                if len(x["stages"]) > 1:
                    nontriv += 1
        open(b, "w").write("\n".join(keep) + "\n")
    res = validate_batches(ctx, "Trace_FrontEnd", batches, jobs=12, timeout=6000)
    seen = {}
    for (path, r, rej, sk) in res:
        ctx.cov["states"] += r.distinct
        ctx.cov["transitions"] += r.generated
        for (kind, rid, obj) in rej:
            key = (obj.get("msg") or "")[:60] + "|" + str([s["outcome"] for s in obj.get("stages", [])][-1:])
            seen[key] = seen.get(key, 0) + 1
            if seen[key] <= 3:
                ctx.violation({"kind": "trace", "spec": "Trace_FrontEnd/FrontEnd", "text": obj.get("text"), "stages": obj.get("stages"),
                               "errors": obj.get("errors"), "message": obj.get("msg"), "fault": obj.get("fault"), "elapsed_ms": obj.get("elapsed_ms")})
        if len(ctx.cov["samples"]) < 3:
            for x in read_ndjson(path, 400):
                if len(x["stages"]) >= 3 and x["errors"]:
                    ctx.sample({"kind": "recorded run of the real front-end, accepted by FrontEnd.tla", "text": x["text"], "fault": x["fault"],
                                "stages": x["stages"], "errors": x["errors"]})
                    break
        os.remove(path)
    ctx.cov["traces_validated_against_impl"] = total
    ctx.cov["evaluations"] = total
    ctx.cov["distinct_nontrivial"] = nontriv
    ctx.cov["engines"].append({"name": "MC_FaultGen + Trace_FrontEnd", "role": "fault enumeration by TLC, recorded runs validated against FrontEnd.tla", "runs": total})
    ctx.assumptions += ["repetition counts that the optimizer would unroll are capped at 64 (the property's 'bounded size')",
                        "time bound 5000 ms per text on this machine; texts up to 1500 characters",
                        "the harness runs on a 2 GB stack; a crash of the harness process inside the front-end is reported as outcome 'aborted' for the text it had begun"]


def replay(ctx, path):
    vh = cargo_build()
    body = json.load(open(path))
    cf = os.path.join(ctx.work, "c.ndjson")
    text = body.get("text") or ""
    open(cf, "w").write(json.dumps({"text": [ord(c) for c in text], "fault": "replay", "at": 0}) + "\n")
    out = os.path.join(ctx.work, "o.ndjson")
    died = _fe_run(vh, ["--cases", cf], out)
    if died:
        print("VIOLATION property=C09 replay=%s" % path)
        return 1
    keep = [l for l in open(out) if '"id"' in l]
    open(out, "w").write("".join(keep))
    res = validate_batches(ctx, "Trace_FrontEnd", [out], jobs=1)
    if any(rej for (_, _, rej, _) in res):
        print("VIOLATION property=C09 replay=%s" % path)
        return 1
    print("replay: the front-end ends in rules or located errors on the current tree")
    return 0
