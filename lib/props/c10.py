"""C10 - line/column arithmetic and error rendering are correct for all text.

spec/LineCol.tla defines line, column, the containing line, span validity and the lines
overlapping a span.  TLC enumerates every text up to MaxLen over {a, e-acute, LF, CR, TAB} plus a
family with 8..101 lines (two- and three-digit line numbers); the harness asks the real code at
every boundary offset and every ordered offset pair (Position, Span, Pair::line_col from
PairsBuilder and from a real parse, Error::new_from_pos / new_from_span incl. the rendering
parsed back, LineColLocation::from, lines(), lines_span()) and TLC validates every answer
(spec/Trace_LineCol.tla).  Random texts up to 200 characters (CRLF runs, 3- and 4-byte
characters) are observed at sampled offsets and validated the same way."""
import json
import os
from concurrent.futures import ThreadPoolExecutor
from vlib import *
from pegrun import *


def run(ctx):
    quick = ctx.tier == "quick"
    vh = cargo_build()
    maxlen = 4 if quick else 6
    nsh = 8 if quick else 16
    ctx.cov["rule"] = ("texts: every string up to length %d over {a, e-acute, LF, CR, TAB} and 36 texts with 8..101 lines, observed at every "
                       "boundary offset and every ordered offset pair; plus seeded random texts up to 200 characters at sampled offsets. An "
                       "observation is one offset or offset pair with all the answers of the real code; non-trivial = the text contains a line "
                       "break or a multi-byte character." % maxlen)

    def one(sh):
        cfgname = "MC_LineColGen_%d_run.cfg" % sh
        with open(os.path.join(SPEC, cfgname), "w") as f:
            f.write("SPECIFICATION Spec\nCONSTANTS\n  MaxLen = %d\n  Shard = %d\n  NShards = %d\nINVARIANT Emit\nCHECK_DEADLOCK FALSE\n" % (maxlen, sh, nsh))
        try:
            r = tlc("MC_LineColGen", cfg=cfgname, workdir=ctx.work, outname="lcgen_%d.out" % sh, workers=1, timeout=6000, xmx="3g")
        finally:
            os.remove(os.path.join(SPEC, cfgname))
        if not r.ok:
            raise ToolError("MC_LineColGen shard %d: %s" % (sh, r.violated))
        cases = os.path.join(ctx.work, "lc_cases_%d.ndjson" % sh)
        n = printed_json(r.out, cases)
        os.remove(r.out)
        obs = os.path.join(ctx.work, "lc_obs_%d.ndjson" % sh)
        s = run_json([vh, "lc-observe", "--cases", cases, "--out", obs])
        os.remove(cases)
        return r, obs, s
    with ThreadPoolExecutor(max_workers=12) as ex:
        rs = list(ex.map(one, range(nsh)))
    batches = []
    texts = obsn = 0
    for (r, obs, s) in rs:
        ctx.add_tlc("MC_LineColGen shard", r, "text enumeration") if len(ctx.cov["engines"]) < 1 else None
        ctx.cov["states"] += r.distinct if len(ctx.cov["engines"]) >= 1 and r is not rs[0][0] else 0
        texts += s["texts"]
        obsn += s["observations"]
        batches.append(obs)
    ctx.cov["exhaustive"] = True
    ctx.cov["exhaustive_scope"] = "all texts up to length %d over a 5-character alphabet x all boundary offsets x all ordered offset pairs" % maxlen
    rtexts = robs = 0
    for i in range(4 if quick else 40):
        obs = os.path.join(ctx.work, "lc_rand_%d.ndjson" % i)
        s = run_json([vh, "lc-observe", "--seed", str(ctx.seed * 100 + i), "--texts", "150" if quick else "500", "--out", obs])
        rtexts += s["texts"]
        robs += s["observations"]
        batches.append(obs)
    res = validate_batches(ctx, "Trace_LineCol", batches, jobs=12, timeout=6000)
    nontriv = 0
    for (path, r, rej, sk) in res:
        ctx.cov["states"] += r.distinct
        ctx.cov["transitions"] += r.generated
        for x in read_ndjson(path):
            if any(c in (10, 13) or c > 127 for c in x["obs"]["s"]):
                nontriv += 1
        for (kind, rid, obj) in rej[:6]:
            ctx.violation({"kind": "trace", "spec": "Trace_LineCol/LineCol", "text_code_points": obj.get("s"),
                           "text": "".join(chr(c) for c in obj.get("s", [])), "first_wrong_answer": obj.get("first")})
        if len(rej) > 6:
            ctx.violations += len(rej) - 6
        if len(ctx.cov["samples"]) < 2:
            x = read_ndjson(path, 40)[-1]
            ctx.sample({"kind": "observations on one text validated by TLC", "text": "".join(chr(c) for c in x["obs"]["s"]),
                        "one_position": x["obs"]["pos"][-1], "one_span": (x["obs"]["spans"] or [None])[-1]})
        os.remove(path)
    ctx.cov["traces_validated_against_impl"] = texts + rtexts
    ctx.cov["evaluations"] = obsn + robs
    ctx.cov["distinct_nontrivial"] = nontriv
    ctx.cov["engines"].append({"name": "Trace_LineCol", "role": "every recorded answer checked against LineCol.tla",
                               "enumerated_texts": texts, "random_texts": rtexts, "observations": obsn + robs})
    ctx.assumptions += ["the rendering is parsed back by ~40 lines of trusted glue (number, text, marker column, gutter alignment)",
                        "for spans, the marker is only required under the start column when the span stays on one line; the end line/column is "
                        "only required to be exact when the end is not directly after a line break (pest reports that case 'visually')"]


def replay(ctx, path):
    vh = cargo_build()
    body = json.load(open(path))
    cf = os.path.join(ctx.work, "t.ndjson")
    open(cf, "w").write(json.dumps({"s": body["text_code_points"]}) + "\n")
    obs = os.path.join(ctx.work, "o.ndjson")
    run_json([vh, "lc-observe", "--cases", cf, "--out", obs])
    res = validate_batches(ctx, "Trace_LineCol", [obs], jobs=1)
    if any(rej for (_, _, rej, _) in res):
        print("VIOLATION property=C10 replay=%s" % path)
        return 1
    print("replay: all answers on this text agree with LineCol on the current tree")
    return 0
