"""C11 - the backtracking stack is transactional for every history.

1. T1 (design): TLC checks that the copy-free scheme of pest/src/stack.rs (spec/Stack.tla)
   refines the copying model (spec/StackNaive.tla) for every history in the bounds.
2. spec -> impl: TLC enumerates every history of Depth operations of StackNaive with the
   expected result of every step; the harness replays each on a real pest::Stack<String>.
3. impl -> spec: long random histories on the real stack, recorded per call, validated by TLC
   against StackNaive (spec/Trace_Stack.tla).
The oracle of every verdict is StackNaive (the property's own model)."""
import json
import os
from vlib import *


def _cfg(path, text):
    with open(path, "w") as f:
        f.write(text)


def run(ctx):
    quick = ctx.tier == "quick"
    vh = cargo_build()
    ctx.cov["rule"] = ("histories over push(a|b)/pop/peek/snapshot/clear/restore: (1) every history "
                       "of exactly Depth operations, enumerated by TLC from StackNaive and replayed on "
                       "the real stack (peek observed after every step); (2) seeded random histories of "
                       "300 operations with nesting-heavy weights, validated event by event by TLC. "
                       "A history is non-trivial if it contains a snapshot followed later by a pop or "
                       "push and then a restore or clear; distinct = distinct operation sequences.")
    # ---- 1. refinement of the scheme (design level)
    mlen, mnest = (3, 3) if quick else (4, 3)
    cfg = os.path.join(SPEC, "MC_Stack_run.cfg")
    _cfg(cfg, "SPECIFICATION Spec\nCONSTANTS\n  Vals = {\"a\", \"b\"}\n  MaxLen = %d\n  MaxNest = %d\n"
              "CONSTRAINT Bound\nINVARIANTS Refines NoPanic SameRet WellFormed\nCHECK_DEADLOCK FALSE\n" % (mlen, mnest))
    r = tlc("MC_Stack", cfg="MC_Stack_run.cfg", workdir=ctx.work, workers=8, timeout=3000, xmx="8g")
    ctx.add_tlc("MC_Stack (Stack refines StackNaive, MaxLen=%d MaxNest=%d)" % (mlen, mnest), r, "design theorem T1")
    if not r.ok:
        # a failure here is a statement about the transcription, not yet about the code
        ctx.notes.append("model_drift: MC_Stack reports %s; the replay below decides" % r.violated)
    # ---- 2. spec -> impl
    depth = 7 if quick else 8
    cfg = os.path.join(SPEC, "MC_StackGen_run.cfg")
    _cfg(cfg, "SPECIFICATION Spec\nCONSTANTS\n  Vals = {\"a\", \"b\"}\n  Depth = %d\nINVARIANT Emit\nCHECK_DEADLOCK FALSE\n" % depth)
    g = tlc("MC_StackGen", cfg="MC_StackGen_run.cfg", workdir=ctx.work, workers=8, timeout=3000, xmx="8g")
    if not g.ok:
        raise ToolError("MC_StackGen did not complete: %s" % g.violated)
    ctx.add_tlc("MC_StackGen (all histories of %d operations)" % depth, g, "behaviour generation")
    cases = os.path.join(ctx.work, "cases.ndjson")
    ncases = printed_json(g.out, cases)
    os.remove(g.out)
    if ncases == 0:
        raise ToolError("no replay cases generated")
    rep = run_json([vh, "stack-replay", "--cases", cases])
    ctx.cov["evaluations"] += rep["cases"]
    ctx.cov["distinct_nontrivial"] += rep.get("nontrivial", 0)
    ctx.cov["replayed_histories"] = rep["cases"]
    ctx.cov["replayed_steps"] = rep["steps"]
    ctx.cov["exhaustive"] = True
    ctx.cov["exhaustive_scope"] = "all histories of exactly %d operations over 2 values" % depth
    for c in read_ndjson(cases, 400000)[-1:]:
        ctx.sample({"kind": "replayed history (TLC -> real Stack)", "ops": [(s["o"] + (":" + s["v"] if s["v"] else "")) for s in c],
                    "expected_final": c[-1]["cur"]})
    for m in rep["mismatches"]:
        ctx.violation({"kind": "replay", "spec": "StackNaive", "case": m})
    if rep["mismatch_count"] > len(rep["mismatches"]):
        ctx.notes.append("%d replay mismatches in total" % rep["mismatch_count"])
    os.remove(cases)
    # ---- 3. impl -> spec
    ntr = 150 if quick else 4000
    per = 40 if quick else 500
    done = 0
    shard = 0
    while done < ntr:
        k = min(per, ntr - done)
        tr = os.path.join(ctx.work, "trace%d.ndjson" % shard)
        em = run_json([vh, "stack-emit", "--seed", str(ctx.seed * 1000 + shard), "--traces", str(k),
                       "--ops", "300", "--out", tr])
        t = tlc("Trace_Stack", workdir=ctx.work, outname="trace%d.out" % shard, workers=1,
                env={"TRACE": tr}, timeout=1800, xmx="3g")
        ctx.cov["transitions"] += t.generated
        ctx.cov["states"] += t.distinct
        if shard == 0:
            ctx.cov["engines"].append({"name": "Trace_Stack", "role": "trace validation", "events_first_shard": t.distinct - 1})
            ctx.cov["max_snapshot_nesting_in_traces"] = em["max_nesting"]
            evs = read_ndjson(tr, 12)
            ctx.sample({"kind": "recorded trace prefix (real Stack -> TLC)", "events": evs[1:9]})
        if t.ok:
            ctx.cov["traces_validated_against_impl"] += k
            ctx.cov["evaluations"] += k
            ctx.cov["distinct_nontrivial"] += k
        else:
            idx, ev = (None, None)
            for line in t.rejected:
                idx, ev = parse_rejected(line)
            hist = []
            if idx:
                evs = read_ndjson(tr, idx)
                start = max(i for i, e in enumerate(evs) if e["ev"] == "reset")
                hist = [{"o": e["o"], "v": e["v"], "ret": e["ret"], "cur": e["cur"], "panic": e["panic"]} for e in evs[start + 1:]]
            ctx.violation({"kind": "trace", "spec": "Trace_Stack/StackNaive", "rejected_event_index": idx,
                           "rejected_event": ev, "history_up_to_rejection": hist,
                           "seed": ctx.seed * 1000 + shard})
        os.remove(tr)
        done += k
        shard += 1
    ctx.assumptions += ["values are strings; T: Clone is exercised with String only",
                        "contents are read through the public Index<Range<usize>> and len()"]


def replay(ctx, path):
    """Re-runs the recorded history of a replay file against the current tree."""
    vh = cargo_build()
    body = json.load(open(path))
    hist = body.get("case", {}).get("history") or body.get("history_up_to_rejection")
    if not hist:
        print("replay file has no history"); return 2
    # recompute expectations with TLC: feed the op sequence as a one-trace file
    from vlib import run_json
    ops = [{"o": s["o"], "v": s["v"]} for s in hist]
    f = os.path.join(ctx.work, "ops.json")
    json.dump(ops, open(f, "w"))
    tr = os.path.join(ctx.work, "trace.ndjson")
    run_json([vh, "stack-emit", "--ops-file", f, "--out", tr])
    t = tlc("Trace_Stack", workdir=ctx.work, workers=1, env={"TRACE": tr}, timeout=600)
    if t.ok:
        print("replay: history accepted by StackNaive on the current tree")
        return 0
    print("VIOLATION property=C11 replay=%s" % path)
    return 1
