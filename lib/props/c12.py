"""C12 - a call limit never changes a result silently.

spec/CallLimit.tla states the property over a sweep (the results of one parse under the limits
1, 2, 3, ... and with no limit): Sound (every result is the unlimited result or the call-limit
error) and Monotone (once a limit completes, every larger limit gives the same result).
The harness sweeps every limit from 1 to (calls the unlimited parse makes) + 3 on the real VM -
for every (grammar, input) of TLC-enumerated grammar slices (all inputs up to a bound) and of
seeded random grammars - and TLC validates every recorded sweep (spec/Trace_CallLimit.tla)."""
import json
import os
from vlib import *
from pegrun import *

SLICES_QUICK = [("core", 3, 3, 3), ("counted", 2, 2, 3), ("ws", 4, 2, 2), ("restore", 4, 1, 4)]
SLICES_THOROUGH = [("core", 8, 3, 4), ("counted", 4, 3, 4), ("ws", 8, 2, 3), ("stack", 6, 3, 3), ("factor", 4, 1, 4)]


def run(ctx):
    quick = ctx.tier == "quick"
    vh = cargo_build()
    ctx.cov["rule"] = ("sweeps: one per (grammar, start rule, input): the parse is run on the real VM with no limit and with every limit "
                       "1..calls+3 (calls = counted calls of the unlimited parse, <= 120). Grammars x inputs: all members of MC_PegGen "
                       "slices x all inputs up to the slice's bound, plus seeded random grammars x random inputs. A sweep is non-trivial "
                       "if at least 3 different limits end in the call-limit error; distinct = distinct (grammar, start, input).")
    batches = []
    tot = {"cases": 0, "limited_runs": 0, "skipped_many_calls": 0, "skipped_panicking": 0, "runs_differing_from_unlimited": 0}
    for (name, shards, size, length) in (SLICES_QUICK if quick else SLICES_THOROUGH):
        cases, rs, n = gen_slice(ctx, name, shards, size, length, jobs=12)
        for r in rs:
            ctx.cov["states"] += r.distinct
            ctx.cov["transitions"] += r.generated
        if quick and name == "ws":
            thin(cases, 3)
        if quick and name == "restore":
            thin(cases, 5)
        out = os.path.join(ctx.work, "sw_%s.ndjson" % name)
        s = run_json([vh, "c12-emit", "--cases", cases, "--out", out], timeout=6000)
        os.remove(cases)
        for k in tot:
            tot[k] += s[k]
        batches.append(out)
    # rule calls three deep under every triple of modifiers, calls under ? and *: a call refused half-way through a
    # change of atomicity or of look-ahead mode must leave nothing behind
    nest = os.path.join(ctx.work, "nest3.ndjson")
    nest3_file(nest, inputs=("<x>", "x,x", "x-xy", "x;x", "x", "<x, x-xy>") if quick else NEST3_INPUTS)
    out = os.path.join(ctx.work, "sw_nest3.ndjson")
    s = run_json([vh, "c12-emit", "--cases", nest, "--out", out], timeout=6000)
    os.remove(nest)
    for k in tot:
        tot[k] += s[k]
    batches.append(out)
    for i in range(4 if quick else 24):
        out = os.path.join(ctx.work, "sw_rand_%d.ndjson" % i)
        s = run_json([vh, "c12-emit", "--seed", str(ctx.seed * 100 + i), "--grammars", "150" if quick else "400", "--out", out], timeout=6000)
        for k in tot:
            tot[k] += s[k]
        batches.append(out)
    # the same sweeps with detailed error tracking switched on (another global switch that changes what `rule` does
    # around the limit check): random grammars and a thinned core slice
    for i in range(2 if quick else 8):
        out = os.path.join(ctx.work, "sw_detail_%d.ndjson" % i)
        s = run_json([vh, "c12-emit", "--seed", str(ctx.seed * 100 + 50 + i), "--grammars", "150" if quick else "400", "--detail", "1", "--out", out], timeout=6000)
        for k in tot:
            tot[k] += s[k]
        batches.append(out)
    cases, rs, n = gen_slice(ctx, "core", 3, 3, 3, jobs=12)
    thin(cases, 4 if quick else 1)
    out = os.path.join(ctx.work, "sw_detail_core.ndjson")
    s = run_json([vh, "c12-emit", "--cases", cases, "--detail", "1", "--out", out], timeout=6000)
    os.remove(cases)
    for k in tot:
        tot[k] += s[k]
    batches.append(out)
    # split big batches for parallel TLC
    parts = []
    for b in batches:
        lines = nl_lines(b)
        os.remove(b)
        step = 4000
        for i in range(0, len(lines), step):
            p = "%s.%d" % (b, i // step)
            open(p, "w").write("\n".join(lines[i:i + step]) + "\n")
            parts.append(p)
    res = validate_batches(ctx, "Trace_CallLimit", parts, jobs=12)
    nontriv = 0
    for (path, r, rej, sk) in res:
        ctx.cov["states"] += r.distinct
        ctx.cov["transitions"] += r.generated
        recs = {x["id"]: x for x in read_ndjson(path)}
        for x in recs.values():
            if sum(1 for s in x["sweep"] if s["r"] == "CALLLIMIT") >= 3:
                nontriv += 1
        if len(ctx.cov["samples"]) < 2:
            x = next((x for x in recs.values() if x["calls_needed"] >= 4), None)
            if x:
                ctx.sample({"kind": "recorded sweep validated by TLC", "grammar": x["text"], "start": x["start"],
                            "input": "".join(chr(c) for c in x["inp"]), "calls_needed": x["calls_needed"],
                            "unlimited": x["rinf"], "results_by_limit": [s["r"][:60] for s in x["sweep"]]})
        for (kind, rid, obj) in rej:
            x = recs[rid]
            ctx.violation({"kind": "trace", "spec": "Trace_CallLimit/CallLimit", "grammar": x["text"], "start": x["start"],
                           "inp": x["inp"], "input": "".join(chr(c) for c in x["inp"]), "backend": x["backend"],
                           "limit": obj.get("limit"), "result_under_limit": obj.get("got"), "unlimited_result": obj.get("unlimited"),
                           "calls_needed": x["calls_needed"]})
        os.remove(path)
    ctx.cov["traces_validated_against_impl"] = tot["cases"]
    ctx.cov["evaluations"] = tot["limited_runs"]
    ctx.cov["distinct_nontrivial"] = nontriv
    ctx.cov["sweeps"] = tot
    ctx.cov["engines"].append({"name": "Trace_CallLimit", "role": "Sound/Monotone of CallLimit.tla on every recorded sweep"})
    ctx.assumptions += ["quick tier: every 3rd grammar of the ws slice; thorough: all", "the limit is a process global: sweeps run single-threaded",
                        "parses that panic with the documented empty-stack POP/PEEK message or need more than 120 counted calls are not swept",
                        "VM back-end only in this round (the counter lives in the shared ParserState)", "sweeps with error detail on: random grammars and a sample of the core slice"]


def replay(ctx, path):
    vh = cargo_build()
    body = json.load(open(path))
    cf = os.path.join(ctx.work, "g.ndjson")
    open(cf, "w").write(json.dumps({"text": body["grammar"], "cases": [{"start": body["start"], "inp": body["inp"], "exp": {"k": "ok"}}]}) + "\n")
    out = os.path.join(ctx.work, "sw.ndjson")
    run_json([vh, "c12-emit", "--cases", cf, "--out", out])
    res = validate_batches(ctx, "Trace_CallLimit", [out], jobs=1)
    if any(rej for (_, _, rej, _) in res):
        print("VIOLATION property=C12 replay=%s" % path)
        return 1
    print("replay: sweep is sound and monotone on the current tree")
    return 0
