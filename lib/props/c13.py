"""C13 - operator-precedence parsers build the precedence-correct tree.

spec/ShuntingYard.tla is the classical two-stack operator-precedence algorithm with the binding
powers the property names; spec/Pratt.tla transcribes pest's Pratt loop and the deprecated climbing
loop.  TLC (MC_Pratt) enumerates every operator table (up to renaming) with K operators over the
given number of levels - prefix, postfix, infix-left, infix-right, mixed inside a level - and every
well-formed token sequence up to MaxLen; it checks on the model that both loops build the
ShuntingYard tree and that the tree uses every token once in order, and prints every case.  The
harness replays every case on the real PrattParser, ConstPrattParser (N = 1..8, and once through
pratt_precedence!) and, on infix-only tables with one associativity per level, PrecClimber.
Tables in which one rule is registered twice (mode "dup": K rules in K + 1 registrations; the last
registration is in force - spec/Pratt.tla Registered) are replayed on PrattParser and ConstPrattParser,
which must agree with each other.  Random tables (<= 6 levels, <= 8 operators) and sequences (<= 40 tokens) are run on the real
parsers and validated by TLC against ShuntingYard (Trace_Pratt)."""
import json
import os
from concurrent.futures import ThreadPoolExecutor
from vlib import *
from pegrun import *


def gen(ctx, k, levels, maxlen, nsh, mode="all"):
    def one(sh):
        cfgname = "MC_Pratt_%s_%d_run.cfg" % (mode, sh)
        with open(os.path.join(SPEC, cfgname), "w") as f:
            f.write("SPECIFICATION Spec\nCONSTANTS\n  K = %d\n  Levels = %d\n  MaxLen = %d\n  Shard = %d\n  NShards = %d\n  Mode = \"%s\"\n"
                    "INVARIANTS PrattIsShuntingYard UsesEachTokenOnceInOrder ClimberIsShuntingYard Emit\nCHECK_DEADLOCK FALSE\n"
                    % (k, levels, maxlen, sh, nsh, mode))
        try:
            r = tlc("MC_Pratt", cfg=cfgname, workdir=ctx.work, outname="pratt_%s_%d.out" % (mode, sh), workers=1, timeout=6000, xmx="3g")
        finally:
            os.remove(os.path.join(SPEC, cfgname))
        return r
    with ThreadPoolExecutor(max_workers=12) as ex:
        rs = list(ex.map(one, range(nsh)))
    dest = os.path.join(ctx.work, "pratt_%s.ndjson" % mode)
    n = 0
    with open(dest, "w") as g:
        for r in rs:
            with open(r.out, errors="replace") as f:
                for line in f:
                    if line.startswith('"{'):
                        g.write(json.loads(line))
                        g.write("\n")
                        n += 1
            os.remove(r.out)
    return dest, rs, n


def run(ctx):
    quick = ctx.tier == "quick"
    vh = cargo_build()
    k, levels, maxlen, nsh = (3, 3, 6, 8) if quick else (4, 3, 7, 16)
    ctx.cov["rule"] = ("cases = (operator table, well-formed token sequence): every table up to renaming with %d operators over %d levels x every "
                       "well-formed sequence up to %d tokens (TLC), the pratt_precedence! table x sequences up to 7 tokens, and seeded random tables "
                       "and sequences up to 40 tokens. Non-trivial = the sequence contains at least two operators; distinct = distinct cases." % (k, levels, maxlen))
    total = 0
    for (mode, kk, ll, ml, ns) in [("all", k, levels, maxlen, nsh), ("macro", 4, 3, 7, 4), ("dup", 2, 2, 5, 4) if quick else ("dup", 3, 2, 5, 16)]:
        cases, rs, n = gen(ctx, kk, ll, ml, ns, mode)
        model_bad = [r.violated for r in rs if not r.ok]
        for r in rs:
            ctx.cov["states"] += r.distinct
            ctx.cov["transitions"] += r.generated
        if model_bad:
            # the transcription of the Pratt/climbing loop disagrees with ShuntingYard on the MODEL: a hypothesis about
            # the code, decided by the replay below
            ctx.notes.append("model_drift: MC_Pratt reports %s" % model_bad[:2])
        rep = run_json([vh, "pratt-replay", "--cases", cases], timeout=6000)
        total += rep["cases"]
        ctx.cov["engines"].append({"name": "MC_Pratt (%s, K=%d, levels=%d, len<=%d)" % (mode, kk, ll, ml),
                                   "role": "T10 on the model + replay on PrattParser/ConstPrattParser/PrecClimber",
                                   "cases": rep["cases"], "climber_cases": rep["climber_cases"], "macro_cases": rep["macro_cases"],
                                   "repeated_registration_cases": rep["dup_cases"]})
        if rep["dup_joint_departures"]:
            ctx.notes.append("model_drift: on %d cases with a rule registered twice PrattParser and ConstPrattParser agree with each other "
                             "but not with the last-registration-wins reading of spec/Pratt.tla" % rep["dup_joint_departures"])
        for m in rep["mismatches"]:
            d = {"kind": "replay", "spec": "ShuntingYard"}
            d.update(m)
            ctx.violation(d)
        if rep["mismatch_count"] > len(rep["mismatches"]):
            ctx.violations += rep["mismatch_count"] - len(rep["mismatches"])
        for c in read_ndjson(cases, 3000)[-1:]:
            ctx.sample({"kind": "TLC-generated case replayed on the real parsers", **c}, cap=2)
        ctx.cov["distinct_nontrivial"] += sum(1 for c in read_ndjson(cases) if sum(1 for t in c["toks"] if t) >= 2)
        os.remove(cases)
    ctx.cov["exhaustive"] = True
    ctx.cov["exhaustive_scope"] = "all tables with %d operators over %d levels x all well-formed sequences up to %d tokens" % (k, levels, maxlen)
    batches = []
    nrand = 0
    for i in range(4 if quick else 40):
        out = os.path.join(ctx.work, "pr_rand_%d.ndjson" % i)
        s = run_json([vh, "pratt-emit", "--seed", str(ctx.seed * 100 + i), "--cases", "1500" if quick else "5000", "--out", out])
        nrand += s["cases"]
        batches.append(out)
    res = validate_batches(ctx, "Trace_Pratt", batches, jobs=12, timeout=6000)
    for (path, r, rej, sk) in res:
        ctx.cov["states"] += r.distinct
        ctx.cov["transitions"] += r.generated
        for (kind, rid, obj) in rej[:5]:
            ctx.violation({"kind": "trace", "spec": "Trace_Pratt/ShuntingYard", **obj})
        if len(rej) > 5:
            ctx.violations += len(rej) - 5
        if len(ctx.cov["samples"]) < 3:
            x = read_ndjson(path, 5)[-1]
            ctx.sample({"kind": "random case: trees built by the real parsers, validated by TLC", "table": x["table"], "toks": x["toks"], "pratt": x["pratt"]})
        os.remove(path)
    ctx.cov["traces_validated_against_impl"] = nrand
    ctx.cov["evaluations"] = total + nrand
    ctx.cov["distinct_nontrivial"] += nrand
    ctx.assumptions += ["operands and operators are one-character pairs built with PairsBuilder; the closures build a term tree that records each token's position",
                        "ConstPrattParser is instantiated for N = 1..8; pratt_precedence! once (a fixed four-operator table)"]


def replay(ctx, path):
    vh = cargo_build()
    body = json.load(open(path))
    cf = os.path.join(ctx.work, "c.ndjson")
    rec = {"table": body["table"], "toks": body["toks"], "tree": body.get("expected"), "regs": body.get("regs"),
           "climber": all(e["affix"] in ("inl", "inr") for e in body["table"]) and body.get("parser") == "PrecClimber"}
    open(cf, "w").write(json.dumps(rec) + "\n")
    rep = run_json([vh, "pratt-replay", "--cases", cf])
    if rep["mismatch_count"]:
        print("VIOLATION property=C13 replay=%s" % path)
        return 1
    print("replay: the real parsers build the ShuntingYard tree on the current tree")
    return 0
