"""C14 - the bootstrapped grammar parser is the parser its grammar file denotes.

Four opinions on every (meta-rule, text): the checked-in pest_meta::parser::parse; the VM over the
CURRENT meta/src/grammar.pest run through the current front-end/optimizer; a parser derived from
that file at check time; and (on a sample) the TLA+ semantics of the file's AST.  TLC
(spec/Trace_Bootstrap.tla) requires the three parsers to agree on acceptance, token tree, error
position and expected/unexpected names, and the semantics to agree on acceptance and tokens.
Texts: the speller's grammars (C07), single-fault damaged grammars (C09), the repository's .pest
files cut into short pieces; each is fed to the top rule and, from the start of up to six chunks, to
33 sub-rules (expression, term, string, character, range, peek_slice, integer, COMMENT ...)."""
import json
import os
from vlib import *
from pegrun import *
import gencrate
from props import c07, c09


def _gen_texts(ctx, quick):
    """Texts from the generators of C07 and C09 (TLC), plus pieces of the repository's grammars."""
    out = os.path.join(ctx.work, "texts.ndjson")
    n = 0
    with open(out, "w") as g:
        for (module, consts, take) in [("MC_ReaderGen", "  MaxSize = 2\n  Shard = %d\n  NShards = 4\n", 5 if quick else 1),
                                       ("MC_FaultGen", "  Shard = %d\n  NShards = 8\n", 25 if quick else 4)]:
            for sh in ([0] if quick else [0, 1, 2, 3]):
                cfgname = "%s_c14_%d_run.cfg" % (module, sh)
                with open(os.path.join(SPEC, cfgname), "w") as f:
                    f.write("SPECIFICATION Spec\nCONSTANTS\n" + consts % sh + "INVARIANT Emit\nCHECK_DEADLOCK FALSE\n")
                try:
                    r = tlc(module, cfg=cfgname, workdir=ctx.work, outname="c14_%s_%d.out" % (module, sh), workers=1, timeout=6000, xmx="3g")
                finally:
                    os.remove(os.path.join(SPEC, cfgname))
                if not r.ok:
                    raise ToolError("%s: %s" % (module, r.violated))
                ctx.cov["states"] += r.distinct
                ctx.cov["transitions"] += r.generated
                k = 0
                with open(r.out, errors="replace") as f:
                    for line in f:
                        if line.startswith('"{'):
                            k += 1
                            if k % take == 0:
                                rec = json.loads(json.loads(line))
                                g.write(json.dumps({"text": rec["text"]}) + "\n")
                                n += 1
                os.remove(r.out)
        # constructs of the meta-grammar that the generators above do not spell: nested and unterminated block
        # comments, CRLF line ends after comments and doc lines, every escape form, odd spacing inside counted
        # repetitions and PEEK slices, tags, PUSH_LITERAL
        import codecs
        for line in open(os.path.join(VERIF, "lib", "props", "c14_texts.txt"), encoding="utf-8").read().splitlines():
            # backslash escapes (\n, \r, \t, \\) are decoded; other characters are kept as they are
            t = codecs.decode(line.encode("latin-1", "backslashreplace"), "unicode_escape")
            g.write(json.dumps({"text": [ord(c) for c in t]}) + "\n")
            n += 1
        # long and deep texts: what is small in a grammar file can be deep for the parser of grammar files (one level per
        # escape in a string, per parenthesis, per nested comment)
        for t in ['a = { "' + "\\n" * 300 + '" }', 'a = { "' + "\\u{41}\\x41\\\\" * 120 + '" }',
                  "a = { " + "(" * 30 + "b" + ")" * 30 + " }", "/* " * 260 + "*/ " * 260 + "a = { b }",
                  "a = { " + " ~ ".join(["b?"] * 200) + " }", "a = { " + " | ".join(['"x"'] * 200) + " }", "a = { " + "!" * 150 + "b }"]:
            g.write(json.dumps({"text": [ord(c) for c in t], "long": True}) + "\n")
            n += 1
            # ... and the piece inside the braces alone (the sub-rules see it from its first character)
            if t.startswith("a = { ") and t.endswith(" }"):
                g.write(json.dumps({"text": [ord(c) for c in t[6:-2]], "long": True}) + "\n")
                n += 1
        # pieces of the repository's own grammars (whole short rules)
        import glob
        for path in sorted(glob.glob(os.path.join(REPO, "*", "**", "*.pest"), recursive=True)):
            if "/target/" in path:
                continue
            try:
                lines = open(path, encoding="utf-8").read().splitlines()
            except Exception:
                continue
            step = 7 if quick else 2
            for i in range(0, len(lines), step):
                piece = "\n".join(lines[i:i + 2])
                if 0 < len(piece) <= 150:
                    g.write(json.dumps({"text": [ord(c) for c in piece]}) + "\n")
                    n += 1
                    if i % 3 == 0:      # the same piece with CRLF line ends
                        g.write(json.dumps({"text": [ord(c) for c in piece.replace("\n", "\r\n") + "\r\n"]}) + "\n")
                        n += 1
    return out, n


def run(ctx):
    quick = ctx.tier == "quick"
    vh = cargo_build()
    texts, ntexts = _gen_texts(ctx, quick)
    grammar = open(os.path.join(REPO, "meta", "src", "grammar.pest"), encoding="utf-8").read()
    extra = open(os.path.join(HARNESS, "bootstrap_extra.rs")).read()
    extra += "\nstatic GRAMMAR: &str = %s;\n" % gencrate.raw(grammar)
    # the fresh parser is derived from a FILE called grammar.pest, after another parser derived from another grammar.pest
    # (the repository itself has three files of that name)
    decoy = 'string = { "<" ~ (!">" ~ ANY)* ~ ">" }\nrange = { string ~ "-" ~ string }\nexpression = { range | string }\n'
    runner = gencrate.build(ctx.pid, [grammar], extra_rs=extra, opt=1, by_path_decoy=decoy)
    out = os.path.join(ctx.work, "boot.ndjson")
    gram = os.path.join(ctx.work, "metagrammar.ndjson")
    s = run_json([runner, "boot", "--texts", texts, "--out", out, "--grammar-out", gram, "--doc-every", "25" if quick else "10"], timeout=20000)
    ctx.cov["rule"] = ("(meta-rule, text) pairs: %d texts (speller grammars, single-fault damaged grammars, pieces of the repository's .pest files) fed to "
                       "the top rule and, from the start of up to 6 chunks, to 33 focus sub-rules (every other rule on a third of the texts); on every pair "
                       "the three real parsers are compared, on every %s-th short pair also the TLA+ semantics of grammar.pest. Non-trivial = a pair "
                       "on which the rule matches a non-empty prefix or fails after position 0." % (ntexts, "25" if quick else "10"))
    lines = nl_lines(out)
    os.remove(out)
    parts = []
    nparts = 12
    for p in range(nparts):
        sub = lines[p::nparts]
        if sub:
            pf = "%s.%d" % (out, p)
            open(pf, "w").write("\n".join(sub) + "\n")
            parts.append(pf)
    def val(path):
        r = tlc("Trace_Bootstrap", workdir=ctx.work, outname=os.path.basename(path) + ".out", workers=1,
                env={"BATCH": path, "GRAMMAR": gram}, timeout=12000, xmx="3g")
        return path, r
    from concurrent.futures import ThreadPoolExecutor
    with ThreadPoolExecutor(max_workers=12) as ex:
        res = list(ex.map(val, parts))
    import re
    nontriv = 0
    seen = {}
    for (path, r) in res:
        ctx.cov["states"] += r.distinct
        ctx.cov["transitions"] += r.generated
        rej = []
        with open(r.out, errors="replace") as f:
            for line in f:
                m = re.match(r'<<"REJECTED", "(\w+)", (\d+), (".*")>>\s*$', line)
                if m:
                    rej.append((m.group(1), json.loads(json.loads(m.group(3)))))
        if not r.ok and not rej:
            raise ToolError("Trace_Bootstrap: %s" % r.violated)
        for rec in read_ndjson(path):
            for c in rec["cases"]:
                o = c["checked_in"]
                if (o["k"] == "ok" and o.get("end", 0) > 0) or (o["k"] == "fail" and o.get("pos", 0) > 0):
                    nontriv += 1
        for (kind, obj) in rej:
            key = (kind, obj.get("start"))
            seen[key] = seen.get(key, 0) + 1
            if seen[key] <= 2:
                ctx.violation({"kind": "trace", "spec": "Trace_Bootstrap", "which": kind, "meta_rule": obj.get("start"), "inp": obj.get("inp"),
                               "text": "".join(chr(c) for c in obj.get("inp", [])), "checked_in": obj.get("checked_in"),
                               "vm_over_current_grammar_pest": obj.get("vm"), "freshly_derived": obj.get("fresh")})
        if len(ctx.cov["samples"]) < 2:
            x = read_ndjson(path, 1)[0]["cases"]
            c = next((c for c in x if c["checked_in"]["k"] == "ok" and c["checked_in"].get("end", 0) > 3), x[0])
            ctx.sample({"kind": "one (meta-rule, text) pair on the three parsers", "rule": c["start"], "text": "".join(chr(k) for k in c["inp"]),
                        "checked_in": c["checked_in"]})
        os.remove(path)
    ctx.cov["traces_validated_against_impl"] = s["cases"]
    ctx.cov["evaluations"] = s["cases"] * 3 + s["cases_with_semantics"]
    ctx.cov["distinct_nontrivial"] = nontriv
    ctx.cov["totals"] = s
    ctx.cov["engines"].append({"name": "Trace_Bootstrap", "role": "agreement of checked-in parser, VM(grammar.pest), fresh derive; PegSemantics on a sample", **s})
    ctx.assumptions += ["the freshly derived parser is compiled from /repo/meta/src/grammar.pest at check time; the checked-in one is whatever meta/src/grammar.rs holds",
                        "expected/unexpected rules are compared as sets of names"]


def replay(ctx, path):
    cargo_build()
    body = json.load(open(path))
    grammar = open(os.path.join(REPO, "meta", "src", "grammar.pest"), encoding="utf-8").read()
    extra = open(os.path.join(HARNESS, "bootstrap_extra.rs")).read() + "\nstatic GRAMMAR: &str = %s;\n" % gencrate.raw(grammar)
    runner = gencrate.build("C14r", [grammar], extra_rs=extra, opt=1)
    t = os.path.join(ctx.work, "t.ndjson")
    open(t, "w").write(json.dumps({"text": body["inp"]}) + "\n")
    out = os.path.join(ctx.work, "b.ndjson")
    gram = os.path.join(ctx.work, "g.ndjson")
    run_json([runner, "boot", "--texts", t, "--out", out, "--grammar-out", gram, "--doc-every", "1000000"])
    r = tlc("Trace_Bootstrap", workdir=ctx.work, workers=1, env={"BATCH": out, "GRAMMAR": gram}, timeout=6000)
    bad = any(l.startswith('<<"REJECTED"') for l in open(r.out, errors="replace"))
    if bad:
        print("VIOLATION property=C14 replay=%s" % path)
        return 1
    print("replay: the three parsers agree on the current tree")
    return 0
