"""C15 - detailed error tracking is observationally transparent.

Every (grammar, start, input) of the workloads is parsed twice on the real VM, with
set_error_detail(false) and (true); TLC (spec/Trace_Detail.tla) requires equal observable
results (tokens/end/stack, or error position + expected/unexpected rules), no panic caused by
the detail, max_position inside the input on a UTF-8 boundary, and a help message that renders."""
import json
import os
from vlib import *
from pegrun import *

SLICES_QUICK = [("core", 3, 3, 3), ("ws", 4, 2, 3), ("builtin", 2, 3, 3), ("restore", 6, 1, 4)]
SLICES_THOROUGH = [("core", 8, 4, 4), ("ws", 8, 3, 3), ("builtin", 6, 4, 3), ("stack", 6, 3, 4), ("counted", 4, 3, 4), ("factor", 4, 1, 4), ("restore", 8, 1, 5)]


def _long_token_cases(path):
    """Grammars whose failure reports carry LONG tokens - literals and stack contents of 24..48 bytes made of one-,
    two-, three- and four-byte characters in every alignment - so that whatever the help message does with a token
    (quoting, shortening) meets multi-byte characters at every byte offset."""
    n = 0
    with open(path, "w") as f:
        for ch in ("\u00c0", "\u7d42", "\U0001f600", "a"):
            for lead in range(0, 4):
                for count in (8, 11, 12, 16, 17, 24):
                    lit = "x" * lead + ch * count
                    if not (24 <= len(lit.encode()) <= 100):
                        continue
                    esc = lit
                    text = 'r = { "q" ~ "%s" ~ EOI }\ns = { "q" ~ !"%s" ~ ANY }\nd = { ("%s")+ }\np = { PUSH(d) ~ " " ~ POP ~ EOI }\n' % (esc, esc, ch)
                    twin = chr(ord(ch) + 1)        # a different character with the same UTF-8 lead byte(s)
                    inputs = ["q", "q" + lit[:-1], "q" + lit, "q" + lit + "z", "qz", lit + " " + lit[:-1] + "z", ch * count + " " + ch * (count - 1), ch * count + " ",
                              "q" + lit[:-1] + twin, "q" + "x" * lead + twin, ch * count + " " + ch * (count - 1) + twin, twin]
                    cases = []
                    for start in ("r", "s", "p"):
                        for i in inputs:
                            cases.append({"start": start, "inp": [ord(c) for c in i], "exp": {"k": "unknown"}})
                    f.write(json.dumps({"text": text, "cases": cases}) + "\n")
                    n += 1
        # fan-out: a rule with L failing literals, (optionally) an intermediate rule, and below it a rule with B
        # failing child rules - the shapes in which the attempt bookkeeping collapses and re-parents call stacks
        for lits in range(0, 5):
            for branches in range(1, 6):
                for mid in (False, True):
                    for ch in ("#", "\u00e9"):
                        alts = ['"k"'] * lits + ["expr"]
                        text = "stmt = { %s }\n" % " | ".join(alts)
                        text += "expr = { value }\nvalue = { %s }\n" % " | ".join("b%d" % i for i in range(branches)) if mid else \
                                "expr = { %s }\n" % " | ".join("b%d" % i for i in range(branches))
                        text += "".join('b%d = { "%s" }\n' % (i, ch) for i in range(branches))
                        text += "top = { stmt ~ stmt }\n"
                        cases = [{"start": st, "inp": [ord(c) for c in i], "exp": {"k": "unknown"}}
                                 for st in ("stmt", "top", "expr") for i in ("", "?", ch, ch + "?", "k?", chr(ord(ch[0]) + 1))]
                        f.write(json.dumps({"text": text, "cases": cases}) + "\n")
                        n += 1
    return n


def _many_line_cases(path):
    """Failures far down a text whose furthest TOKEN lies on an earlier line with a shorter line number: characters taken
    by ANY, by the scan idiom or under a negative predicate are not tokens, so the position the help message is about can
    lag behind the error's line - across the places where the line number gains a digit (9|10, 99|100)."""
    with open(path, "w") as f:
        text = ('doc = { "#" ~ (!"$" ~ ANY)* ~ EOI }\ndoca = @{ "#" ~ (!"$" ~ ANY)* ~ EOI }\nw = { "a" ~ NEWLINE* ~ "b" }\n'
                'v = { "a" ~ (!"b" ~ ("\\n" | "x"))* ~ "b" ~ "c" }\nitem = { "k" }\nlist = { (item ~ NEWLINE)* ~ "end" }\n')
        cases = []
        for k in (0, 1, 2, 8, 9, 10, 11, 98, 99, 100):
            nl = "\n" * k
            for (start, inp) in (("doc", "#" + nl + "$"), ("doca", "#" + nl + "$"), ("doc", "#" + nl), ("w", "a" + nl + "c"), ("w", "a" + nl),
                                 ("v", "a" + nl + "bd"), ("v", "a" + nl + "x" + nl + "c"), ("list", "k\n" * k + "en"), ("list", "k\n" * k + "k")):
                cases.append({"start": start, "inp": [ord(c) for c in inp], "exp": {"k": "unknown"}})
        f.write(json.dumps({"text": text, "cases": cases}) + "\n")


def _history_cases(path):
    """The history-dependent report grammars of C08 (a match under `!` in an abandoned alternative, progress, then
    several attempts at the new position), and the same with the negated rule one level deeper."""
    from props import c08
    n = 0
    with open(path, "w") as f:
        for rec in c08._history_grammars():
            for text in (rec["text"], rec["text"].replace('a = { "a" }', 'a = { a2 }\na2 = { "a" }')):
                f.write(json.dumps({"text": text, "cases": [dict(c, exp={"k": "unknown"}) for c in rec["cases"]]}) + "\n")
                n += 1
    return n


def run(ctx):
    quick = ctx.tier == "quick"
    vh = cargo_build()
    ctx.cov["rule"] = ("pairs of runs (detail off / on) of the real VM on: all members of MC_PegGen slices x all inputs up to the slice's "
                       "bound, seeded random grammars (all operators, stack, WHITESPACE/COMMENT, multi-byte inputs), and grammars whose reports carry "
                       "24..100-byte tokens of multi-byte characters in every alignment (literals and stack contents). A pair is "
                       "non-trivial if the parse fails (attempt information is produced); distinct = distinct (grammar, start, input).")
    batches = []
    tot = {"cases": 0, "failing_parses": 0, "dropped": 0}
    for (name, shards, size, length) in (SLICES_QUICK if quick else SLICES_THOROUGH):
        cases, rs, n = gen_slice(ctx, name, shards, size, length, jobs=12)
        for r in rs:
            ctx.cov["states"] += r.distinct
            ctx.cov["transitions"] += r.generated
        out = os.path.join(ctx.work, "d_%s.ndjson" % name)
        s = run_json([vh, "c15-emit", "--cases", cases, "--out", out], timeout=6000)
        os.remove(cases)
        for k in tot:
            tot[k] += s[k]
        batches.append(out)
    cases = os.path.join(ctx.work, "long_tokens.ndjson")
    _long_token_cases(cases)
    out = os.path.join(ctx.work, "d_long.ndjson")
    s = run_json([vh, "c15-emit", "--cases", cases, "--out", out], timeout=6000)
    os.remove(cases)
    for k in tot:
        tot[k] += s[k]
    batches.append(out)
    cases = os.path.join(ctx.work, "manylines.ndjson")
    _many_line_cases(cases)
    out = os.path.join(ctx.work, "d_lines.ndjson")
    s = run_json([vh, "c15-emit", "--cases", cases, "--out", out], timeout=6000)
    os.remove(cases)
    for k in tot:
        tot[k] += s[k]
    batches.append(out)
    cases = os.path.join(ctx.work, "history.ndjson")
    _history_cases(cases)
    out = os.path.join(ctx.work, "d_hist.ndjson")
    s = run_json([vh, "c15-emit", "--cases", cases, "--out", out], timeout=6000)
    os.remove(cases)
    for k in tot:
        tot[k] += s[k]
    batches.append(out)
    for i in range(6 if quick else 36):
        out = os.path.join(ctx.work, "d_rand_%d.ndjson" % i)
        s = run_json([vh, "c15-emit", "--seed", str(ctx.seed * 100 + i), "--grammars", "200" if quick else "500", "--out", out], timeout=6000)
        for k in tot:
            tot[k] += s[k]
        batches.append(out)
    parts = []
    for b in batches:
        lines = nl_lines(b)
        os.remove(b)
        step = 20000
        for i in range(0, len(lines), step):
            p = "%s.%d" % (b, i // step)
            open(p, "w").write("\n".join(lines[i:i + step]) + "\n")
            parts.append(p)
    res = validate_batches(ctx, "Trace_Detail", parts, jobs=12)
    for (path, r, rej, sk) in res:
        ctx.cov["states"] += r.distinct
        ctx.cov["transitions"] += r.generated
        recs = None
        if len(ctx.cov["samples"]) < 2:
            for x in read_ndjson(path, 400):
                if x["detail"]["has"]:
                    ctx.sample({"kind": "detail off/on pair validated by TLC", "grammar": x["text"], "start": x["start"],
                                "input": "".join(chr(c) for c in x["inp"]), "off": x["off"], "on": x["on"], "detail": x["detail"]})
                    break
        for (kind, rid, obj) in rej:
            if recs is None:
                recs = {x["id"]: x for x in read_ndjson(path)}
            x = recs[rid]
            ctx.violation({"kind": "trace", "spec": "Trace_Detail", "grammar": x["text"], "start": x["start"], "inp": x["inp"],
                           "input": "".join(chr(c) for c in x["inp"]), "backend": x["backend"],
                           "detail_off": obj.get("off"), "detail_on": obj.get("on"), "detail": obj.get("detail")})
        os.remove(path)
    ctx.cov["traces_validated_against_impl"] = tot["cases"]
    ctx.cov["evaluations"] = tot["cases"] * 2
    ctx.cov["distinct_nontrivial"] = tot["failing_parses"]
    ctx.cov["pairs"] = tot
    ctx.cov["engines"].append({"name": "Trace_Detail", "role": "transparency of set_error_detail on every recorded pair"})
    ctx.assumptions += ["the switch is a process global: runs are single-threaded",
                        "VM back-end only in this round (the tracking lives in the shared ParserState)"]


def replay(ctx, path):
    vh = cargo_build()
    body = json.load(open(path))
    cf = os.path.join(ctx.work, "g.ndjson")
    open(cf, "w").write(json.dumps({"text": body["grammar"], "cases": [{"start": body["start"], "inp": body["inp"], "exp": {"k": "ok"}}]}) + "\n")
    out = os.path.join(ctx.work, "d.ndjson")
    run_json([vh, "c15-emit", "--cases", cf, "--out", out])
    res = validate_batches(ctx, "Trace_Detail", [out], jobs=1)
    if any(rej for (_, _, rej, _) in res):
        print("VIOLATION property=C15 replay=%s" % path)
        return 1
    print("replay: detail on/off agree on the current tree")
    return 0
