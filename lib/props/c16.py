"""C16 - Unicode property rules are consistent for every code point.

spec/Unicode.tla states the structure the tables must have (exactly one two-letter category per
scalar value, each grouped category = union of its members, scripts pairwise disjoint, runs cover
exactly the scalar values, the published name lists agree and resolve).  The harness - a crate
generated at check time that holds a function pointer `pest::unicode::NAME` for every advertised
name and a derived parser with one rule per name - evaluates every advertised name on EVERY scalar
value through the function and through by_name, and through a VM grammar and the derived parser at
every run boundary (+-1) and a seeded sample (quick) or everywhere (thorough); it writes the
run-length encoded membership table (about 5000 runs), every disagreement between access paths and
the name lists.  TLC validates the table (spec/Trace_Unicode.tla)."""
import json
import os
from vlib import *
from pegrun import *
import gencrate


def run(ctx):
    quick = ctx.tier == "quick"
    vh = cargo_build()
    names = run_json([vh, "unicode-names"])
    adv = names["advertised"]
    nf = os.path.join(ctx.work, "names.ndjson")
    open(nf, "w").write(json.dumps(names) + "\n")
    grammar = "".join("p%d = { %s }\n" % (i, n) for i, n in enumerate(adv))
    extra = open(os.path.join(HARNESS, "unicode_extra.rs")).read()
    extra += "\nstatic NAMES: &[&str] = &[%s];\n" % ", ".join('"%s"' % n for n in adv)
    extra += "static FUNCS: &[(&str, fn(char) -> bool)] = &[%s];\n" % ", ".join('("%s", pest::unicode::%s as fn(char) -> bool)' % (n, n) for n in adv)
    extra += "static GRAMMAR: &str = %s;\n" % gencrate.raw(grammar)
    runner = gencrate.build(ctx.pid, [grammar], extra_rs=extra, opt=2)
    table = os.path.join(ctx.work, "table.ndjson")
    s = run_json([runner, "unicode", "--out", table, "--exhaustive", "no" if quick else "yes", "--seed", str(ctx.seed)], timeout=20000)
    ctx.cov["rule"] = ("every one of the 1 112 064 scalar values x every advertised property name (%d): function vs by_name on all of them; VM grammar "
                       "and derived parser %s. A case is one (scalar value, name, path) evaluation; non-trivial = a run of the membership table "
                       "(maximal range of scalar values with the same set of matching names)." % (len(adv), "at every run boundary +-1 and a 1/257 seeded sample" if quick else "on all of them"))
    r = tlc("Trace_Unicode", workdir=ctx.work, workers=1, env={"BATCH": table, "NAMES": nf}, timeout=6000, xmx="6g")
    ctx.add_tlc("Trace_Unicode", r, "structure of the run table and name lists")
    rej = []
    with open(r.out, errors="replace") as f:
        for line in f:
            if line.startswith('<<"REJECTED"'):
                import re
                m = re.match(r'<<"REJECTED", "(\w+)", (\d+), (".*")>>\s*$', line)
                if m:
                    rej.append((m.group(1), json.loads(json.loads(m.group(3)))))
    if not r.ok and not rej:
        raise ToolError("Trace_Unicode: %s" % r.violated)
    for (kind, obj) in rej[:12]:
        ctx.violation({"kind": "trace", "spec": "Trace_Unicode/Unicode", "which": kind, "detail": obj})
    if len(rej) > 12:
        ctx.violations += len(rej) - 12
    runs = read_ndjson(table, 3)
    ctx.sample({"kind": "runs of the membership table", "runs": [x for x in runs if x["ev"] == "run"][:2]})
    ctx.cov["traces_validated_against_impl"] = s["runs"]
    ctx.cov["evaluations"] = s["checked_by_name"] + s["checked_vm_and_generated"] + s.get("checked_group_or_name", 0) + 1112064 * len(adv)
    ctx.cov["engines"].append({"name": "two properties in one expression", "role": "every rule `GROUP | NAME` and `NAME | GROUP` (8 grouped categories x all names) through the real "
                               "front-end and the VM on sampled characters: matches iff one of the two does", "parses": s.get("checked_group_or_name", 0)})
    ctx.cov["distinct_nontrivial"] = s["runs"]
    ctx.cov["table"] = s
    ctx.cov["exhaustive"] = not quick
    ctx.cov["exhaustive_scope"] = ("function and by_name paths: all scalar values x all names" if quick else
                                   "all four access paths: all scalar values x all names")
    ctx.assumptions += ["the two-letter categories, the 8 groups and their members are written into Unicode.tla from the Unicode standard's General_Category values",
                        "script names are the entries of pest::unicode::SCRIPT_PROPERTY_NAMES"]
    os.remove(table)


def replay(ctx, path):
    ctx2 = Ctx("C16-replay", "quick", 1)
    run(ctx2)
    if ctx2.violations:
        print("VIOLATION property=C16 replay=%s" % path)
        return 1
    print("replay: the tables have the required structure on the current tree")
    return 0
