"""C17 - the debugger reports exactly the breakpoint hits of the parse under any timing.

spec/Debugger.tla models the controller / parser-thread protocol of pest_debugger with one action per
critical section (is_done load/store, breakpoint lookup under the mutex, bounded-channel send, park /
unpark, join, spawn).  TLC explores EVERY interleaving for every controller script of up to MaxCmds
commands over the rule-entry sequence of a real VM parse, and checks: at most one breakpoint event per
wake-up (S2), nothing sent while waiting for a continue (S3), and that a restart issued when the
channel was empty never leaves the controller stuck in join (L1, as a reachable-state predicate).
spec -> impl: every counterexample and a simulated sample of complete behaviours (also stuck ends) is a
SCHEDULE that the harness forces on the real DebuggerContext through the observation points of hook H4
(one process per behaviour): each step releases exactly the named thread at the named point; the real
threads must stand where the model says, received events must be the model's, leftover channel
contents must match, and a stuck end must really leave run() blocked."""
import json
import os
import re
from vlib import *

_RE = re.compile(r'<<"(CEX|BEH)", "(\w+)", (".*")>>\s*$')


def _cfg(name, cap, maxcmds, maxruns, invariants, view=True):
    with open(os.path.join(SPEC, name), "w") as f:
        f.write("SPECIFICATION Spec\nCONSTANTS\n  Entries <- EntriesDef\n  Final <- FinalDef\n  BpRules <- BpRulesDef\n"
                "  Cap = %d\n  MaxCmds = %d\n  MaxRuns = %d\n%sINVARIANTS %s\nCHECK_DEADLOCK FALSE\n"
                % (cap, maxcmds, maxruns, "VIEW view\n" if view else "", " ".join(invariants)))


def _dumps(outpath, kind):
    res = []
    with open(outpath, errors="replace") as f:
        for line in f:
            m = _RE.match(line)
            if m and m.group(1) == kind:
                res.append((m.group(2), json.loads(json.loads(m.group(3)))))
    return res


def _fmt(h):
    return " ".join("%s%s:%s%s" % (x["who"][0], x["g"], x["act"], ("=" + str(x["data"])) if x["data"] not in (0, "") else "") for x in h)


def run(ctx):
    quick = ctx.tier == "quick"
    os.makedirs(BIN, exist_ok=True)
    vd = cargo_build(pkg="vdbg")
    ents = os.path.join(ctx.work, "entries.ndjson")
    e = run_json([vd, "entries", "--input", "xyx"])
    open(ents, "w").write(json.dumps(e) + "\n")
    ctx.cov["rule"] = ("model: every interleaving of controller and parser-thread sub-steps for every controller script of up to MaxCmds commands "
                       "(run, cont, recv, add/del/delall breakpoint) over the real entry sequence %s, channel capacity 1 and 2. Replayed schedules: "
                       "every counterexample plus simulated complete behaviours. Non-trivial = a behaviour in which a breakpoint is hit; distinct = "
                       "distinct action sequences." % e["entries"])
    maxcmds = 6 if quick else 8
    confirmed_known = 0
    for cap in (1, 2):
        # ---- safety S2, S3: exhaustive
        _cfg("MC_Debugger_s_run.cfg", cap, maxcmds, 2 if quick else 3, ["InvOnePerContinue", "InvNothingWhileWaiting"])
        try:
            r = tlc("MC_Debugger", cfg="MC_Debugger_s_run.cfg", workdir=ctx.work, outname="dbg_s%d.out" % cap, workers=8, timeout=6000, xmx="12g",
                    env={"ENTRIES": ents})
        finally:
            os.remove(os.path.join(SPEC, "MC_Debugger_s_run.cfg"))
        ctx.add_tlc("MC_Debugger safety S2/S3 (Cap=%d, MaxCmds=%d)" % (cap, maxcmds), r, "every interleaving")
        cex = _dumps(r.out, "CEX")
        for (name, d) in cex[:3]:
            _confirm(ctx, vd, cap, name, d)
        if not r.ok and not cex:
            raise ToolError("MC_Debugger safety: %s" % r.violated)
        # ---- restart liveness L1 (known cause first, then anything else)
        for inv in ("InvRestartTerminates", "InvRestartTerminatesOtherwise"):
            _cfg("MC_Debugger_l_run.cfg", cap, maxcmds, 2 if quick else 3, [inv])
            try:
                r = tlc("MC_Debugger", cfg="MC_Debugger_l_run.cfg", workdir=ctx.work, outname="dbg_l%d_%s.out" % (cap, inv), workers=1 if inv == "InvRestartTerminates" else 8,
                        timeout=6000, xmx="12g", env={"ENTRIES": ents})
            finally:
                os.remove(os.path.join(SPEC, "MC_Debugger_l_run.cfg"))
            ctx.add_tlc("MC_Debugger %s (Cap=%d)" % (inv, cap), r, "restart terminates the previous run")
            cex = _dumps(r.out, "CEX")
            if not r.ok and not cex:
                raise ToolError("MC_Debugger restart: %s" % r.violated)
            for (name, d) in cex[:2]:
                confirmed_known += _confirm(ctx, vd, cap, name, d)
    # ---- behaviours for conformance
    nb = 0
    hits = 0
    for cap in (1, 2):
        _cfg("MC_Debugger_sim_run.cfg", cap, 8, 3, ["EmitBehaviour", "EmitStuck"], view=False)
        try:
            r = tlc("MC_Debugger", cfg="MC_Debugger_sim_run.cfg", workdir=ctx.work, outname="dbg_sim%d.out" % cap, workers=1, timeout=600, xmx="4g",
                    env={"ENTRIES": ents}, simulate="num=%d" % (250 if quick else 4000), extra=["-depth", "150"], seed=ctx.seed)
        finally:
            os.remove(os.path.join(SPEC, "MC_Debugger_sim_run.cfg"))
        behs = _dumps(r.out, "BEH")
        seen = set()
        bf = os.path.join(ctx.work, "behs%d.ndjson" % cap)
        with open(bf, "w") as f:
            for (name, d) in behs:
                key = json.dumps(d["hist"])
                if key in seen:
                    continue
                seen.add(key)
                f.write(json.dumps(d) + "\n")
        out = os.path.join(ctx.work, "behrep%d.ndjson" % cap)
        s = run_json([vd, "replay", "--cap", str(cap), "--behaviours", bf, "--out", out], timeout=6000)
        nb += s["behaviours"]
        for rec in read_ndjson(out):
            b = rec["behaviour"]
            if any(h["act"] == "Send" for h in b["hist"]):
                hits += 1
            v = rec["verdict"]
            if v["ok"] is not True:
                ctx.violation({"kind": "replay", "spec": "Debugger", "capacity": cap, "schedule": _fmt(b["hist"]), "behaviour": b, "problem": v["problem"]})
            elif b["expect_stuck"]:
                d = {"kind": "replay", "spec": "Debugger (restart terminates)", "capacity": cap, "schedule": _fmt(b["hist"]), "behaviour": b,
                     "stuck_confirmed_on_real_code": v["stuck_confirmed"],
                     "cause": "restart joins while the previous thread is blocked sending into a full channel" if b.get("blocked_sending") else "other"}
                if v["stuck_confirmed"]:
                    # only a violation of the property when the controller had seen an empty channel at RunLoad
                    if _empty_at_runload(b):
                        ctx.violation(d)
                else:
                    ctx.violation(dict(d, kind="replay", problem="the model ends stuck but the real run() returned"))
        if len(ctx.cov["samples"]) < 2:
            x = read_ndjson(out, 40)[-1]
            ctx.sample({"kind": "schedule generated by TLC, forced on the real debugger", "capacity": cap, "schedule": _fmt(x["behaviour"]["hist"]),
                        "verdict": x["verdict"]})
    ctx.cov["traces_validated_against_impl"] = nb
    ctx.cov["evaluations"] = nb
    ctx.cov["distinct_nontrivial"] = hits
    ctx.cov["engines"].append({"name": "vdbg schedule replay", "role": "behaviours of Debugger.tla forced on the real DebuggerContext through hook H4", "schedules": nb})
    ctx.assumptions += ["thread::park has no spurious wake-ups (true of this toolchain's futex implementation; the documentation allows them)",
                        "each run gets its own channel; the grammar is fixed (top = _{ a ~ b ~ a ~ b? } on \"xyx\"), the protocol does not depend on it",
                        "an enabled step that does not happen within 5 s is a mismatch; a stuck end is confirmed when run() has not returned after 2 s of free running"]


def _empty_at_runload(b):
    """Was the channel of the previous run empty when the last RunLoad happened? (recomputed from the schedule)"""
    n = {}
    empty = False
    for h in b["hist"]:
        g = h["g"]
        if h["act"] in ("Send", "FinSend"):
            n[g] = n.get(g, 0) + 1
        elif h["act"] == "Recv":
            n[g] = n.get(g, 0) - 1
        elif h["act"] == "RunLoad":
            empty = n.get(g, 0) == 0
    return empty


def _confirm(ctx, vd, cap, name, d):
    """Replays a counterexample of the model on the real code; returns 1 if it was attributed to a known finding."""
    bf = os.path.join(ctx.work, "cex.ndjson")
    open(bf, "w").write(json.dumps(d) + "\n")
    out = os.path.join(ctx.work, "cexrep.ndjson")
    run_json([vd, "replay", "--cap", str(cap), "--behaviours", bf, "--out", out])
    v = read_ndjson(out)[0]["verdict"]
    det = {"kind": "replay", "spec": "Debugger (%s)" % name, "capacity": cap, "schedule": _fmt(d["hist"]), "behaviour": d, "replay_verdict": v}
    if name.startswith("RestartTerminates"):
        det["cause"] = "restart joins while the previous thread is blocked sending into a full channel" if d.get("blocked_sending") else "other"
        if v["ok"] is True and v["stuck_confirmed"] is True:
            before = sum(ctx.known_hits.values())
            ctx.violation(det)
            return 1 if sum(ctx.known_hits.values()) > before else 0
        ctx.notes.append("model_drift: counterexample of %s not reproduced by the real code (%s)" % (name, v.get("problem")))
        return 0
    if v["ok"] is True:
        ctx.violation(det)      # the real code follows the violating behaviour step by step
    else:
        ctx.notes.append("model_drift: counterexample of %s not reproduced by the real code (%s)" % (name, v.get("problem")))
    return 0


def replay(ctx, path):
    vd = cargo_build(pkg="vdbg")
    body = json.load(open(path))
    bf = os.path.join(ctx.work, "b.ndjson")
    open(bf, "w").write(json.dumps(body["behaviour"]) + "\n")
    out = os.path.join(ctx.work, "r.ndjson")
    run_json([vd, "replay", "--cap", str(body.get("capacity", 1)), "--behaviours", bf, "--out", out])
    v = read_ndjson(out)[0]["verdict"]
    bad = (v["ok"] is not True) or (v.get("stuck_confirmed") is True)
    if bad:
        print("VIOLATION property=C17 replay=%s" % path)
        return 1
    print("replay: the real debugger follows the schedule and the restart terminates on the current tree")
    return 0
