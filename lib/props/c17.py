"""C17 - the debugger reports exactly the breakpoint hits of the parse under any timing.

spec/Debugger.tla models the controller / parser-thread protocol of pest_debugger with one action per
critical section (is_done load/store, breakpoint lookup under the mutex, bounded-channel send, park /
unpark, join, spawn).  TLC explores EVERY interleaving for every controller script of up to MaxCmds
commands over the rule-entry sequence of a real VM parse, and checks: at most one breakpoint event per
wake-up (S2), nothing sent while waiting for a continue (S3), and that a restart issued when the
channel was empty never leaves the controller stuck in join (L1, as a reachable-state predicate).
spec -> impl: every counterexample and a simulated sample of complete behaviours (also stuck ends) is a
SCHEDULE that the harness forces on the real DebuggerContext through the observation points of hook H4
(one process per behaviour): each step releases exactly the named thread at the named point; the real
threads must stand where the model says, received events must be the model's, leftover channel
contents must match, and a stuck end must really leave run() blocked.
The parse itself: "the breakpoint hits of the parse" are its rule entries; the sequence a listener on the real VM is
told about is validated against the entry log of the TLA+ semantics (Trace_Entries) on enumerated and random grammars."""
import json
from concurrent.futures import ThreadPoolExecutor
import os
import re
from vlib import *
from pegrun import *

_RE = re.compile(r'<<"(CEX|BEH)", "(\w+)", (".*")>>\s*$')


def _cfg(name, cap, maxcmds, maxruns, invariants, view=True):
    with open(os.path.join(SPEC, name), "w") as f:
        f.write("SPECIFICATION Spec\nCONSTANTS\n  Entries <- EntriesDef\n  Final <- FinalDef\n  BpRules <- BpRulesDef\n  GrammarRules <- GrammarRulesDef\n"
                "  Cap = %d\n  MaxCmds = %d\n  MaxRuns = %d\n  AllowBadRun = FALSE\n%sINVARIANTS %s\nCHECK_DEADLOCK FALSE\n"
                % (cap, maxcmds, maxruns, "VIEW view\n" if view else "", " ".join(invariants)))


def _dumps(outpath, kind):
    res = []
    with open(outpath, errors="replace") as f:
        for line in f:
            m = _RE.match(line)
            if m and m.group(1) == kind:
                res.append((m.group(2), json.loads(json.loads(m.group(3)))))
    return res


def _fmt(h):
    return " ".join("%s%s:%s%s" % (x["who"][0], x["g"], x["act"], ("=" + str(x["data"])) if x["data"] not in (0, "") else "") for x in h)


def run(ctx):
    quick = ctx.tier == "quick"
    os.makedirs(BIN, exist_ok=True)
    vd = cargo_build(pkg="vdbg")
    ents = os.path.join(ctx.work, "entries.ndjson")
    e = run_json([vd, "entries", "--input", "xyx"])
    open(ents, "w").write(json.dumps(e) + "\n")
    ctx.cov["rule"] = ("model: every interleaving of controller and parser-thread sub-steps for every controller script of up to MaxCmds commands "
                       "(run, cont, recv, add/del/delall breakpoint) over the real entry sequence %s, channel capacity 1 and 2. Replayed schedules: "
                       "every counterexample plus simulated complete behaviours. Non-trivial = a behaviour in which a breakpoint is hit; distinct = "
                       "distinct action sequences." % e["entries"])
    maxcmds = 6 if quick else 8
    confirmed_known = 0
    for cap in (1, 2):
        # ---- safety S2, S3: exhaustive
        _cfg("MC_Debugger_s_run.cfg", cap, maxcmds, 2 if quick else 3, ["InvOnePerContinue", "InvNothingWhileWaiting"])
        try:
            r = tlc("MC_Debugger", cfg="MC_Debugger_s_run.cfg", workdir=ctx.work, outname="dbg_s%d.out" % cap, workers=8, timeout=6000, xmx="12g",
                    env={"ENTRIES": ents})
        finally:
            os.remove(os.path.join(SPEC, "MC_Debugger_s_run.cfg"))
        ctx.add_tlc("MC_Debugger safety S2/S3 (Cap=%d, MaxCmds=%d)" % (cap, maxcmds), r, "every interleaving")
        cex = _dumps(r.out, "CEX")
        for (name, d) in cex[:3]:
            _confirm(ctx, vd, cap, name, d)
        if not r.ok and not cex:
            raise ToolError("MC_Debugger safety: %s" % r.violated)
        # ---- restart liveness L1 (known cause first, then anything else)
        for inv in ("InvRestartTerminates", "InvRestartTerminatesOtherwise"):
            _cfg("MC_Debugger_l_run.cfg", cap, maxcmds, 2 if quick else 3, [inv])
            try:
                r = tlc("MC_Debugger", cfg="MC_Debugger_l_run.cfg", workdir=ctx.work, outname="dbg_l%d_%s.out" % (cap, inv), workers=1 if inv == "InvRestartTerminates" else 8,
                        timeout=6000, xmx="12g", env={"ENTRIES": ents})
            finally:
                os.remove(os.path.join(SPEC, "MC_Debugger_l_run.cfg"))
            ctx.add_tlc("MC_Debugger %s (Cap=%d)" % (inv, cap), r, "restart terminates the previous run")
            cex = _dumps(r.out, "CEX")
            if not r.ok and not cex:
                raise ToolError("MC_Debugger restart: %s" % r.violated)
            for (name, d) in cex[:2]:
                confirmed_known += _confirm(ctx, vd, cap, name, d)
    # ---- behaviours for conformance: random scripts (simulation), then directed scripts (every interleaving)
    nb = 0
    hits = 0
    for cap in (1, 2):
        _cfg("MC_Debugger_sim_run.cfg", cap, 8, 3, ["EmitBehaviour", "EmitStuck"], view=False)
        try:
            r = tlc("MC_Debugger", cfg="MC_Debugger_sim_run.cfg", workdir=ctx.work, outname="dbg_sim%d.out" % cap, workers=1, timeout=600, xmx="4g",
                    env={"ENTRIES": ents}, simulate="num=%d" % (250 if quick else 4000), extra=["-depth", "150"], seed=ctx.seed)
        finally:
            os.remove(os.path.join(SPEC, "MC_Debugger_sim_run.cfg"))
        (a, b) = _replay_behs(ctx, vd, cap, _dumps(r.out, "BEH"), "sim", 10 ** 9)
        nb += a
        hits += b
    nscripts = 0
    e_any = run_json([vd, "entries", "--input", "xyx"], env={"VDBG_GRAMMAR": ANY_GRAMMAR})
    plan = [(i, sc, e, None) for (i, sc) in enumerate(SCRIPTS)] + [(100 + i, sc, e_any, ANY_GRAMMAR) for (i, sc) in enumerate(ANY_SCRIPTS)]
    for (si, script, ee, gram) in plan:
        for cap in (1, 2):
            sf = os.path.join(ctx.work, "entries_script.ndjson")
            open(sf, "w").write(json.dumps(dict(ee, script=[{"c": c.split(":")[0], "r": (c.split(":") + [""])[1]} for c in script])) + "\n")
            name = "MC_Debugger_scr_run.cfg"
            with open(os.path.join(SPEC, name), "w") as f:
                f.write("SPECIFICATION Spec\nCONSTANTS\n  Entries <- EntriesDef\n  Final <- FinalDef\n  BpRules <- BpRulesDef\n  GrammarRules <- GrammarRulesDef\n"
                        "  Cap = %d\n  MaxCmds = %d\n  MaxRuns = %d\n  AllowBadRun = TRUE\nCONSTRAINT FollowsScript\nINVARIANTS EmitScripted EmitStuck InvOnePerContinue InvNothingWhileWaiting\nCHECK_DEADLOCK FALSE\n"
                        % (cap, len(script), max(1, sum(1 for c in script if c in ("run", "runbad")))))
            try:
                # simulation: random interleavings of the fixed script (the constraint keeps the controller on it)
                r = tlc("MC_Debugger", cfg=name, workdir=ctx.work, outname="dbg_scr%d_%d.out" % (si, cap), workers=1, timeout=600, xmx="4g", env={"ENTRIES": sf},
                        simulate="num=%d" % (40 if quick else 400), extra=["-depth", "200"], seed=ctx.seed + si)
            finally:
                os.remove(os.path.join(SPEC, name))
            ctx.add_tlc("MC_Debugger script %d (Cap=%d): %s" % (si, cap, " ".join(script)), r, "random interleavings of one controller script")
            behs = _dumps(r.out, "BEH")
            if not r.ok and not behs:
                raise ToolError("MC_Debugger script %d: %s" % (si, r.violated))
            (a, b) = _replay_behs(ctx, vd, cap, behs, "scr%d" % si, 12 if quick else 60, grammar=gram)
            nb += a
            hits += b
            if gram is None:
                # the same schedules on the grammar whose start rule is silent (same entries, other bookkeeping)
                (a, b) = _replay_behs(ctx, vd, cap, behs, "scrs%d" % si, 6 if quick else 30, grammar=SILENT_TOP)
                nb += a
                hits += b
            nscripts += 1
    ne = _entries(ctx, quick)
    ctx.cov["traces_validated_against_impl"] = nb + ne
    ctx.cov["evaluations"] = nb + ne
    ctx.cov["distinct_nontrivial"] = hits
    ctx.cov["engines"].append({"name": "vdbg schedule replay", "role": "behaviours of Debugger.tla forced on the real DebuggerContext through hook H4", "schedules": nb})
    ctx.assumptions += ["thread::park has no spurious wake-ups (true of this toolchain's futex implementation; the documentation allows them)",
                        "each run gets its own channel; the grammar is top = { a ~ b ~ a ~ b? } on \"xyx\" (directed scripts also with a silent top rule)",
                        "an enabled step that does not happen within 5 s is a mismatch; a stuck end is confirmed when run() has not returned after 2 s of free running"]


# directed controller scripts (entries of the fixed parse: a@0 b@1 a@2 b@3)
SCRIPTS = [
    ["add:a", "run", "recv", "cont", "recv", "cont", "cont", "recv", "run", "recv"],     # a continue after the last breakpoint, then a restart
    ["add:b", "run", "recv", "cont", "recv", "cont", "cont", "run", "recv", "cont", "recv"],
    ["add:a", "run", "recv", "del:a", "cont", "recv"],                                    # breakpoint deleted while the parser waits
    ["add:a", "run", "recv", "add:b", "cont", "recv", "cont", "recv"],                    # breakpoint added while the parser waits
    ["add:a", "add:b", "run", "recv", "delall", "cont", "recv", "add:b", "run", "recv"],  # delete all, then a new set and a restart
    ["cont", "add:a", "run", "run", "recv", "cont", "recv"],                              # continue before any run; restart at once
    ["add:a", "run", "cont", "cont", "recv", "recv", "cont", "recv"],                     # continues issued ahead of the receives
    ["add:a", "run", "recv", "cont", "recv", "run", "recv", "cont", "recv"],              # restart while the parser waits at its last breakpoint
    ["add:b", "run", "recv", "run", "recv", "cont", "recv", "cont", "recv"],              # restart while the parser waits at its first breakpoint
    ["add:a", "runbad", "run", "run", "recv", "cont", "recv", "cont", "recv"],            # a session that panics (undefined rule): the next run fails, the one after works
    ["add:a", "run", "recv", "runbad", "recv", "run", "cont", "run", "recv", "cont", "recv"],
]
# scripts on a grammar in which a built-in is entered (`b = { ANY }`): a breakpoint on ANY is not a grammar rule, and
# "add all rules" must keep it
ANY_GRAMMAR = 'a = { "x" }\nb = { ANY }\ntop = { a ~ b ~ a ~ b? }\n'
ANY_SCRIPTS = [
    ["add:ANY", "run", "recv", "addall", "cont", "recv", "cont", "recv", "cont", "recv", "cont", "recv"],
    ["addall", "add:ANY", "del:b", "run", "recv", "cont", "recv", "cont", "recv", "delall", "add:ANY", "cont", "recv"],
]


SESSION_TEXTS = [
    ('bom = { "\\u{FEFF}" }\nitem = { ASCII_ALPHA }\ntop = { bom? ~ item+ ~ EOI }\n', ["\ufeffabc", "abc", "a\ufeffb", "\ufeff", "", "ab1", "\ufeff\ufeffa"]),
    ('WHITESPACE = _{ " " | NEWLINE }\nw = { ASCII_ALPHA+ }\ntop = { SOI ~ w* ~ EOI }\n', ["ab cd", "ab\r\ncd", "\ufeffab", "ab \u00e9", "a\nb\rc", ""]),
    ('q = { PUSH("a" | "b") ~ "-" ~ POP }\ntop = { q ~ ("," ~ q)* }\n', ["a-a,b-b", "a-b", "b-b,", "a-a,b-a"]),
    ('e = { "\\u{E9}" | ANY }\ntop = { (!"." ~ e)* ~ "." }\n', ["\u00e9x.", "\u00e9", ".", "\ufeff."]),
]

SILENT_TOP = 'a = { "x" }\nb = { "y" }\ntop = _{ a ~ b ~ a ~ b? }\n'


def _replay_behs(ctx, vd, cap, behs, tag, limit, grammar=None):
    """Forces behaviours (deduplicated, at most `limit`, spread evenly) on the real debugger; returns (replayed, with a hit)."""
    seen = set()
    uniq = []
    for (name, d) in behs:
        key = json.dumps(d["hist"])
        if key not in seen:
            seen.add(key)
            uniq.append(d)
    if len(uniq) > limit:
        step = len(uniq) / float(limit)
        uniq = [uniq[int(i * step)] for i in range(limit)]
    bf = os.path.join(ctx.work, "behs_%s_%d.ndjson" % (tag, cap))
    with open(bf, "w") as f:
        for d in uniq:
            f.write(json.dumps(d) + "\n")
    if not uniq:
        return (0, 0)
    out = os.path.join(ctx.work, "behrep_%s_%d.ndjson" % (tag, cap))
    s = run_json([vd, "replay", "--cap", str(cap), "--behaviours", bf, "--out", out], timeout=6000,
                 env={"VDBG_GRAMMAR": grammar} if grammar else None)
    hits = 0
    for rec in read_ndjson(out):
        b = rec["behaviour"]
        if any(h["act"] == "Send" for h in b["hist"]):
            hits += 1
        v = rec["verdict"]
        if v["ok"] is not True:
            ctx.violation({"kind": "replay", "spec": "Debugger", "capacity": cap, "schedule": _fmt(b["hist"]), "behaviour": b, "problem": v["problem"]})
        elif b["expect_stuck"]:
            d = {"kind": "replay", "spec": "Debugger (restart terminates)", "capacity": cap, "schedule": _fmt(b["hist"]), "behaviour": b,
                 "stuck_confirmed_on_real_code": v["stuck_confirmed"],
                 "cause": "restart joins while the previous thread is blocked sending into a full channel" if b.get("blocked_sending") else "other"}
            if v["stuck_confirmed"]:
                # only a violation of the property when the controller had seen an empty channel at RunLoad
                if _empty_at_runload(b):
                    ctx.violation(d)
            else:
                ctx.violation(dict(d, kind="replay", problem="the model ends stuck but the real run() returned"))
    if len(ctx.cov["samples"]) < 2:
        x = read_ndjson(out, 40)[-1]
        ctx.sample({"kind": "schedule generated by TLC, forced on the real debugger", "capacity": cap, "schedule": _fmt(x["behaviour"]["hist"]),
                    "verdict": x["verdict"]})
    return (s["behaviours"], hits)


def _entries(ctx, quick):
    """The parse itself: the (rule, position) sequence a listener on the real VM is told about must be the entry
    log of the TLA+ semantics over the optimized rules (Trace_Entries) - user rules, built-ins and the implicit
    WHITESPACE / COMMENT calls, failed branches included."""
    vh = cargo_build()
    batches = []
    tot = {"grammars": 0, "cases": 0, "entries": 0, "dropped": 0}
    for (name, shards, size, length) in ([("ws", 2, 2, 3), ("core", 2, 3, 3), ("wsov", 1, 2, 3)] if quick else
                                          [("ws", 8, 3, 3), ("core", 8, 4, 3), ("wsov", 4, 3, 4), ("builtin", 4, 3, 3), ("stack", 4, 3, 3)]):
        cases, rs, n = gen_slice(ctx, name, shards, size, length, jobs=12)
        for r in rs:
            ctx.cov["states"] += r.distinct
            ctx.cov["transitions"] += r.generated
        out = os.path.join(ctx.work, "ent_%s.ndjson" % name)
        s = run_json([vh, "entries-emit", "--cases", cases, "--out", out], timeout=6000)
        os.remove(cases)
        for k in tot:
            tot[k] += s[k]
        batches.append(out)
    for i in range(2 if quick else 12):
        out = os.path.join(ctx.work, "ent_rand_%d.ndjson" % i)
        s = run_json([vh, "entries-emit", "--seed", str(ctx.seed * 100 + i), "--grammars", "200" if quick else "500", "--out", out], timeout=6000)
        for k in tot:
            tot[k] += s[k]
        batches.append(out)
    # hand-written session texts: what a FILE can hold that the enumerated alphabets do not (a leading byte order mark,
    # CRLF, non-ASCII text), a stack grammar, built-ins entered
    hand = os.path.join(ctx.work, "hand_cases.ndjson")
    with open(hand, "w") as f:
        for (text, inputs) in SESSION_TEXTS:
            starts = [l.split("=")[0].strip() for l in text.split("\n") if "=" in l and not l.startswith(("WHITESPACE", "COMMENT"))]
            f.write(json.dumps({"text": text, "cases": [{"start": st, "inp": [ord(ch) for ch in i], "exp": {"k": "unknown"}} for st in starts for i in inputs]}) + "\n")
    out = os.path.join(ctx.work, "ent_hand.ndjson")
    s = run_json([vh, "entries-emit", "--cases", hand, "--out", out], timeout=6000)
    for k in tot:
        tot[k] += s[k]
    batches.append(out)
    # whole sessions on the real DebuggerContext, grammar and input loaded from files: the events must be those entries
    vd = cargo_build(pkg="vdbg")
    sess = {"cases": 0, "events": 0, "skipped": 0}
    def one_session(b):
        # an even sample of the batch (a session costs a thread and a park / unpark round trip per event): at most
        # ~300 grammars (quick) / ~1500 (thorough) with at most 24 cases each; the hand-written batch is run whole
        lines = nl_lines(b)
        keep = 300 if quick else 1500
        sample = lines[::max(1, len(lines) // keep)]
        sb = b + ".sess"
        with open(sb, "w") as f:
            for l in sample:
                rec = json.loads(l)
                rec["cases"] = rec["cases"][::max(1, len(rec["cases"]) // 24)]
                f.write(json.dumps(rec) + "\n")
        try:
            return run_json([vd, "sessions", "--in", sb, "--dir", os.path.join(ctx.work, "sess_" + os.path.basename(b))], timeout=6000)
        finally:
            os.remove(sb)
    with ThreadPoolExecutor(max_workers=8) as ex:
        for (b, r) in zip(batches, ex.map(one_session, batches)):
            for k in sess:
                sess[k] += r[k]
            for m in r["mismatches"]:
                ctx.violation({"kind": "session", "spec": "Trace_Entries/PegSemantics through DebuggerContext sessions over files", **m,
                               "input": "".join(chr(c) for c in m.get("inp", []))})
            if r["mismatch_count"] > len(r["mismatches"]):
                ctx.violations += r["mismatch_count"] - len(r["mismatches"])
    ctx.cov["engines"].append({"name": "vdbg sessions", "role": "stepping sessions (load_grammar / load_input from files, a breakpoint on every name, "
                               "cont after every event): events = the entries told to a plain VM listener, then Eof / Error", **sess})
    parts = []
    for b in batches:
        lines = nl_lines(b)
        os.remove(b)
        for j in range(6):
            sub = lines[j::6]
            if sub:
                pf = "%s.%d" % (b, j)
                open(pf, "w").write("\n".join(sub) + "\n")
                parts.append(pf)
    res = validate_batches(ctx, "Trace_Entries", parts, jobs=12, timeout=6000)
    skipped = 0
    for (path, r, rej, sk) in res:
        ctx.cov["states"] += r.distinct
        ctx.cov["transitions"] += r.generated
        skipped += sk
        recs = None
        seen = {}
        for (kind, gid, obj) in rej:
            if recs is None:
                recs = {x["id"]: x for x in read_ndjson(path)}
            seen[gid] = seen.get(gid, 0) + 1
            if seen[gid] > 1:
                continue
            ctx.violation({"kind": "trace", "spec": "Trace_Entries/PegSemantics", "grammar": recs[gid]["text"], "start": obj.get("start"),
                           "inp": obj.get("inp"), "input": "".join(chr(c) for c in obj.get("inp", [])),
                           "entries_of_the_semantics": obj.get("expected"), "entries_told_to_the_listener": obj.get("got")})
        os.remove(path)
    ctx.cov["engines"].append({"name": "Trace_Entries", "role": "rule entries told to a VM listener = entry log of the semantics over the optimized rules",
                               **tot, "not_compared_divergent_or_fuel": skipped})
    return tot["cases"] - skipped


def _empty_at_runload(b):
    """Was the channel of the previous run empty when the last RunLoad happened? (recomputed from the schedule)"""
    n = {}
    empty = False
    for h in b["hist"]:
        g = h["g"]
        if h["act"] in ("Send", "FinSend"):
            n[g] = n.get(g, 0) + 1
        elif h["act"] == "Recv":
            n[g] = n.get(g, 0) - 1
        elif h["act"] == "RunLoad":
            empty = n.get(g, 0) == 0
    return empty


def _confirm(ctx, vd, cap, name, d):
    """Replays a counterexample of the model on the real code; returns 1 if it was attributed to a known finding."""
    bf = os.path.join(ctx.work, "cex.ndjson")
    open(bf, "w").write(json.dumps(d) + "\n")
    out = os.path.join(ctx.work, "cexrep.ndjson")
    run_json([vd, "replay", "--cap", str(cap), "--behaviours", bf, "--out", out])
    v = read_ndjson(out)[0]["verdict"]
    det = {"kind": "replay", "spec": "Debugger (%s)" % name, "capacity": cap, "schedule": _fmt(d["hist"]), "behaviour": d, "replay_verdict": v}
    if name.startswith("RestartTerminates"):
        det["cause"] = "restart joins while the previous thread is blocked sending into a full channel" if d.get("blocked_sending") else "other"
        if v["ok"] is True and v["stuck_confirmed"] is True:
            before = sum(ctx.known_hits.values())
            ctx.violation(det)
            return 1 if sum(ctx.known_hits.values()) > before else 0
        ctx.notes.append("model_drift: counterexample of %s not reproduced by the real code (%s)" % (name, v.get("problem")))
        return 0
    if v["ok"] is True:
        ctx.violation(det)      # the real code follows the violating behaviour step by step
    else:
        ctx.notes.append("model_drift: counterexample of %s not reproduced by the real code (%s)" % (name, v.get("problem")))
    return 0


def replay(ctx, path):
    vd = cargo_build(pkg="vdbg")
    body = json.load(open(path))
    if body.get("kind") in ("session", "trace"):
        vh = cargo_build()
        lf = os.path.join(ctx.work, "one.ndjson")
        open(lf, "w").write(json.dumps({"text": body["grammar"], "cases": [{"start": body["start"], "inp": body["inp"], "exp": {"k": "unknown"}}]}) + "\n")
        out = os.path.join(ctx.work, "one_ent.ndjson")
        run_json([vh, "entries-emit", "--cases", lf, "--out", out])
        bad = False
        if body["kind"] == "session":
            r = run_json([vd, "sessions", "--in", out, "--dir", os.path.join(ctx.work, "sess_one")])
            bad = r["mismatch_count"] > 0
        else:
            bad = any(rej for (_, _, rej, _) in validate_batches(ctx, "Trace_Entries", [out], jobs=1))
        if bad:
            print("VIOLATION property=C17 replay=%s" % path)
            return 1
        print("replay: the events are the rule entries of the parse on the current tree")
        return 0
    bf = os.path.join(ctx.work, "b.ndjson")
    open(bf, "w").write(json.dumps(body["behaviour"]) + "\n")
    out = os.path.join(ctx.work, "r.ndjson")
    run_json([vd, "replay", "--cap", str(body.get("capacity", 1)), "--behaviours", bf, "--out", out])
    v = read_ndjson(out)[0]["verdict"]
    bad = (v["ok"] is not True) or (v.get("stuck_confirmed") is True)
    if bad:
        print("VIOLATION property=C17 replay=%s" % path)
        return 1
    print("replay: the real debugger follows the schedule and the restart terminates on the current tree")
    return 0
