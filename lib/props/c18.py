"""C18 - the bundled JSON grammar accepts exactly RFC 8259 JSON.

spec/Json8259.tla is RFC 8259 written from its ABNF as a recursive-descent recognizer that also
builds the expected token tree.  TLC (MC_JsonGen) evaluates, for every string of two families -
every string up to ShortLen over 24 class representatives; a pool of valid documents with EVERY
single-character edit of each - both the RFC and the documented semantics (PegSemantics) of the
AST of the CURRENT json.pest, and requires agreement on acceptance and tree (T11: the grammar file
denotes the RFC).  Every string is then parsed by the real pest_grammars::json::JsonParser and
must give the RFC's verdict and tree.  impl -> spec: seeded valid documents (depth <= 8, all escapes,
multi-byte text, every number shape), near-misses of them and the repository's JSON files are
parsed by the real parser and validated by TLC (Trace_Json)."""
import json
import os
from concurrent.futures import ThreadPoolExecutor
from vlib import *
from pegrun import *


def run(ctx):
    quick = ctx.tier == "quick"
    vh = cargo_build()
    gram = os.path.join(ctx.work, "jsonpest.ndjson")
    run_json([vh, "json-grammar", "--out", gram])
    ctx.cov["rule"] = ("strings: every string up to length %d over 24 class representatives; ~50 valid documents and every single-character "
                       "edit (delete / insert / replace with each of the 24 characters at each position) of each; seeded random documents "
                       "(depth <= 8) with 6 random edits each; the repository's JSON test files. Non-trivial = an RFC-valid string or a single "
                       "edit of one; distinct = distinct strings." % (3 if quick else 4))
    fams = [("short", 3 if quick else 4, 6 if quick else 16), ("docs", 0, 12 if quick else 16)]

    def one(job):
        fam, shortlen, sh, nsh = job
        cfgname = "MC_JsonGen_%s_%d_run.cfg" % (fam, sh)
        with open(os.path.join(SPEC, cfgname), "w") as f:
            f.write("SPECIFICATION Spec\nCONSTANTS\n  ShortLen = %d\n  Shard = %d\n  NShards = %d\n  Family = \"%s\"\n"
                    "INVARIANTS GrammarDenotesRfc Emit\nCHECK_DEADLOCK FALSE\n" % (max(shortlen, 1), sh, nsh, fam))
        try:
            r = tlc("MC_JsonGen", cfg=cfgname, workdir=ctx.work, outname="jsgen_%s_%d.out" % (fam, sh), workers=1, timeout=6000, xmx="3g",
                    env={"GRAMMAR": gram})
        finally:
            os.remove(os.path.join(SPEC, cfgname))
        cases = os.path.join(ctx.work, "js_%s_%d.ndjson" % (fam, sh))
        n = printed_json(r.out, cases)
        return r, cases, n
    jobs = [(fam, sl, sh, nsh) for (fam, sl, nsh) in fams for sh in range(nsh)]
    with ThreadPoolExecutor(max_workers=12) as ex:
        rs = list(ex.map(one, jobs))
    total = valid = 0
    t11_total = [0]
    for (r, cases, n) in rs:
        ctx.cov["states"] += r.distinct
        ctx.cov["transitions"] += r.generated
        if not r.ok:
            raise ToolError("MC_JsonGen: %s" % r.violated)
        t11 = sum(1 for l in open(r.out, errors="replace") if l.startswith('<<"REJECTED", "t11"'))
        if t11:
            # T11 fails on the model: the CURRENT json.pest does not denote RFC 8259 under the documented semantics.
            # The replay on the real parser below is what makes it a violation of the code.
            t11_total[0] += t11
        rep = run_json([vh, "json-replay", "--cases", cases], timeout=6000)
        total += rep["strings"]
        valid += rep["rfc_valid"]
        for m in rep["mismatches"][:6]:
            d = {"kind": "replay", "spec": "Json8259"}
            d.update(m)
            ctx.violation(d)
        if rep["mismatch_count"] > 6:
            ctx.violations += rep["mismatch_count"] - 6
        if len(ctx.cov["samples"]) < 2:
            for c in read_ndjson(cases, 2000):
                if c["ok"] and len(c["inp"]) > 6:
                    ctx.sample({"kind": "TLC-judged string replayed on the real JsonParser", "text": "".join(chr(x) for x in c["inp"]),
                                "rfc_accepts": True, "expected_tree": c["toks"]})
                    break
        os.remove(cases)
        os.remove(r.out)
    ctx.cov["engines"].append({"name": "MC_JsonGen", "role": "T11 on the model + replay on the real JsonParser", "strings": total, "rfc_valid": valid,
                               "strings_on_which_json_pest_differs_from_rfc_on_the_model": t11_total[0]})
    if t11_total[0]:
        ctx.notes.append("T11 violated on the model for %d strings: json.pest (documented semantics) differs from RFC 8259" % t11_total[0])
    ctx.cov["exhaustive"] = True
    ctx.cov["exhaustive_scope"] = "all strings up to length %d over 24 representatives; all single-character edits of the document pool" % (3 if quick else 4)
    batches = []
    nrand = 0
    for i in range(4 if quick else 40):
        out = os.path.join(ctx.work, "js_rand_%d.ndjson" % i)
        s = run_json([vh, "json-emit", "--seed", str(ctx.seed * 100 + i), "--docs", "120" if quick else "600", "--out", out] + (["--long", "1"] if i == 0 else []))
        nrand += s["strings"]
        batches.append(out)
    res = validate_batches(ctx, "Trace_Json", batches, jobs=12, timeout=6000)
    for (path, r, rej, sk) in res:
        ctx.cov["states"] += r.distinct
        ctx.cov["transitions"] += r.generated
        for (kind, rid, obj) in rej[:5]:
            ctx.violation({"kind": "trace", "spec": "Trace_Json/Json8259", "input": "".join(chr(c) for c in obj.get("inp", [])),
                           "inp": obj.get("inp"), "rfc_accepts": obj.get("rfc_accepts"), "observed": obj.get("got")})
        if len(rej) > 5:
            ctx.violations += len(rej) - 5
        if len(ctx.cov["samples"]) < 3:
            x = read_ndjson(path, 12)[-1]
            ctx.sample({"kind": "random document parsed by the real JsonParser, validated by TLC", "text": "".join(chr(c) for c in x["inp"]),
                        "accepted": x["got"]["ok"]})
        os.remove(path)
    ctx.cov["traces_validated_against_impl"] = nrand
    ctx.cov["evaluations"] = total + nrand
    ctx.cov["distinct_nontrivial"] = valid + nrand
    ctx.assumptions += ["RFC 8259 is transcribed by hand into Json8259.tla (JSON-text = ws value ws; no size limits, duplicate member names allowed)",
                        "the derived JsonParser is the one compiled from /repo/grammars/src/grammars/json.pest at check time"]


def replay(ctx, path):
    vh = cargo_build()
    body = json.load(open(path))
    out = os.path.join(ctx.work, "one.ndjson")
    # let the real parser parse it and TLC judge it
    cf = os.path.join(ctx.work, "c.ndjson")
    import subprocess
    got = run_json([vh, "json-replay", "--cases", _case(ctx, body)])
    if got["mismatch_count"]:
        print("VIOLATION property=C18 replay=%s" % path)
        return 1
    print("replay: the real JsonParser gives the RFC's verdict and tree on the current tree")
    return 0


def _case(ctx, body):
    cf = os.path.join(ctx.work, "c.ndjson")
    open(cf, "w").write(json.dumps({"inp": body["inp"], "ok": body.get("rfc_accepts", False), "toks": body.get("expected_tree", [])}) + "\n")
    return cf
