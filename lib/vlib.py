"""Shared machinery of /verif/bin/check: building the harness from /repo's working tree,
running TLC, turning TLC output into replay cases, classifying discrepancies against
known_findings.json, writing evidence and replay files.

Exit-code discipline (DESIGN.md section 5): 0 = property held on everything explored,
1 = VIOLATION line(s) printed with replay files, 2 = tool error (never a verdict).
"""
import hashlib
import json
import os
import re
import shutil
import subprocess
import sys
import time

VERIF = os.path.dirname(os.path.dirname(os.path.abspath(__file__)))
REPO = os.environ.get("VERIF_REPO", "/repo")
SPEC = os.path.join(VERIF, "spec")
HARNESS = os.path.join(VERIF, "harness")
WORK = os.path.join(VERIF, "work")
BIN = os.path.join(WORK, "bin")
JAVA_OPTS = "-Xss1g -Dtlc2.tool.queue.IStateQueue=StateDeque"
TLA_JAR = "/opt/veriftools/tla/tla2tools.jar"


class ToolError(Exception):
    pass


def log(*a):
    print(*a, file=sys.stderr, flush=True)


def sh(cmd, cwd=None, env=None, timeout=None, stdout=None):
    e = dict(os.environ)
    e.update({"CARGO_NET_OFFLINE": "true"})
    if env:
        e.update(env)
    return subprocess.run(cmd, cwd=cwd, env=e, timeout=timeout, stdout=stdout,
                          stderr=subprocess.STDOUT if stdout is not None else None)


# ------------------------------------------------------------------------------------------
# building


def cargo_build(pkg="vh", features=None, variant="default", bins=None):
    """Builds harness package `pkg` from /repo's current working tree (path deps) with the hook
    guard on, and installs the binary as work/bin/<bin>-<variant>.  Returns the binary path."""
    os.makedirs(BIN, exist_ok=True)
    cmd = ["cargo", "build", "--release", "--offline", "-p", pkg]
    if features:
        cmd += ["--features", features]
    tdir = os.path.join(HARNESS, "target")
    if variant != "default":
        # a build with other features gets its own target directory (no rebuild ping-pong)
        tdir = os.path.join(HARNESS, "target-" + variant)
        cmd += ["--target-dir", tdir]
    t0 = time.time()
    logf = os.path.join(WORK, "cargo-%s-%s.log" % (pkg, variant))
    with open(logf, "w") as f:
        r = sh(cmd, cwd=HARNESS, stdout=f, timeout=3600)
    if r.returncode != 0:
        sys.stderr.write(open(logf).read()[-6000:])
        raise ToolError("cargo build failed for %s (%s); see %s" % (pkg, variant, logf))
    outs = []
    for b in (bins or [pkg]):
        src = os.path.join(tdir, "release", b)
        dst = os.path.join(BIN, "%s-%s" % (b, variant))
        tmp = dst + ".tmp%d" % os.getpid()
        shutil.copy2(src, tmp)
        os.replace(tmp, dst)
        outs.append(dst)
    log("[build] %s/%s in %.1fs" % (pkg, variant, time.time() - t0))
    return outs[0] if len(outs) == 1 else outs


def nl_lines(path):
    """The lines of an ndjson file, split at LF only (str.splitlines also splits at U+2028, U+0085 ... which may
    occur, unescaped, inside JSON strings)."""
    with open(path, encoding="utf-8", errors="replace") as f:
        return [l for l in f.read().split("\n") if l != ""]


def run_json(cmd, timeout=3600, cwd=None, env=None, allow_fail=False):
    """Runs a harness command whose last stdout line is a JSON summary."""
    e = dict(os.environ)
    if env:
        e.update(env)
    r = subprocess.run(cmd, cwd=cwd, env=e, timeout=timeout, stdout=subprocess.PIPE,
                       stderr=subprocess.PIPE)
    if r.returncode != 0 and not allow_fail:
        sys.stderr.write(r.stderr.decode(errors="replace")[-4000:])
        raise ToolError("harness command failed (%d): %s" % (r.returncode, " ".join(cmd)))
    out = [l for l in r.stdout.decode(errors="replace").strip().split("\n") if l.strip() != ""]
    if not out:
        sys.stderr.write(r.stderr.decode(errors="replace")[-4000:])
        raise ToolError("harness command printed nothing: %s" % " ".join(cmd))
    try:
        return json.loads(out[-1])
    except Exception:
        raise ToolError("harness output is not JSON: %r" % out[-1][:300])


# ------------------------------------------------------------------------------------------
# TLC

_RE_STATES = re.compile(r"(\d+) states generated, (\d+) distinct states found")
_RE_DEPTH = re.compile(r"depth of the complete state graph search is (\d+)")
_RE_INV = re.compile(r"Invariant (\S+) is violated")


class TlcResult:
    def __init__(self):
        self.ok = False            # completed, nothing violated
        self.violated = None       # name of violated invariant / "postcondition" / property
        self.generated = 0
        self.distinct = 0
        self.depth = 0
        self.out = None
        self.wall = 0.0
        self.rejected = []         # payloads printed by postconditions on rejection

    def __repr__(self):
        return "<tlc ok=%s violated=%s gen=%d distinct=%d depth=%d %.1fs>" % (
            self.ok, self.violated, self.generated, self.distinct, self.depth, self.wall)


def tlc(module, cfg=None, outname=None, workdir=None, workers=1, env=None, timeout=1800,
        xmx="4g", extra=None, simulate=None, seed=None):
    """Runs TLC on spec/<module>.tla.  Returns a TlcResult; raises ToolError when TLC itself
    failed (parse error, evaluation error, timeout) so that a tool failure is never a verdict."""
    workdir = workdir or os.path.join(WORK, "tlc")
    os.makedirs(workdir, exist_ok=True)
    outname = outname or (module + ".out")
    out = os.path.join(workdir, outname)
    meta = os.path.join(workdir, "meta-" + outname)
    shutil.rmtree(meta, ignore_errors=True)
    cfg = cfg or module + ".cfg"
    # java is invoked directly: the launcher sizes the MAIN thread's stack from -Xss on the command
    # line only (not from JAVA_TOOL_OPTIONS), and TLC evaluates ASSUMEs, initial states and their
    # invariants on the main thread - the recursive evaluators need a deep stack there too
    # TLC leaves a tlc-<n> directory in java.io.tmpdir on every run: kept inside the run's metadir, which is removed
    os.makedirs(meta, exist_ok=True)
    cmd = ["java", "-Xss1g", "-Xmx" + xmx, "-XX:+UseParallelGC", "-Dtlc2.tool.queue.IStateQueue=StateDeque",
           "-Djava.io.tmpdir=" + meta,
           "-cp", TLA_JAR + ":/opt/veriftools/tla/CommunityModules-deps.jar", "tlc2.TLC"]
    # -checkpoint 0: no periodic checkpoints (the depth-first StateDeque cannot be checkpointed: a run that is
    # still going after 30 minutes would otherwise end in an UnsupportedOperationException)
    cmd += ["-workers", str(workers), "-metadir", meta, "-cleanup", "-noGenerateSpecTE", "-checkpoint", "0",
            "-config", cfg]
    if simulate:
        cmd += ["-simulate", simulate]
    if seed is not None:
        cmd += ["-seed", str(seed)]
    if extra:
        cmd += extra
    cmd += [module + ".tla"]
    e = dict(os.environ)
    e.pop("JAVA_TOOL_OPTIONS", None)
    if env:
        e.update({k: str(v) for k, v in env.items()})
    t0 = time.time()
    with open(out, "w") as f:
        try:
            r = subprocess.run(["timeout", str(int(timeout))] + cmd, cwd=SPEC, env=e,
                               stdout=f, stderr=subprocess.STDOUT)
        except Exception as ex:  # pragma: no cover
            raise ToolError("cannot run TLC: %s" % ex)
    res = TlcResult()
    res.out = out
    res.wall = time.time() - t0
    shutil.rmtree(meta, ignore_errors=True)
    completed = False
    err_lines = []
    with open(out, errors="replace") as f:
        for line in f:
            m = _RE_STATES.search(line)
            if m:
                res.generated, res.distinct = int(m.group(1)), int(m.group(2))
            m = _RE_DEPTH.search(line)
            if m:
                res.depth = int(m.group(1))
            if "Model checking completed. No error has been found." in line:
                completed = True
            m = _RE_INV.search(line)
            if m:
                res.violated = m.group(1)
            if "is violated" in line and res.violated is None:
                res.violated = line.strip()
            if line.startswith("Error: Postcondition") and "is false" in line:
                res.violated = "postcondition"
            if line.startswith("<<\"TRACE-REJECTED\"") or line.startswith("<<\"REJECTED\""):
                res.rejected.append(line.strip())
            if line.startswith("Error:") or "Exception" in line:
                err_lines.append(line.strip())
            if simulate and ("Finished in" in line or "states checked" in line):
                completed = True
    if r.returncode == 124:
        if simulate:
            res.ok = res.violated is None
            return res
        raise ToolError("TLC timed out after %ss on %s" % (timeout, module))
    if res.violated:
        return res
    if completed and not any("Error:" in l for l in err_lines):
        res.ok = True
        return res
    tail = "".join(l[:300] for l in open(out, errors="replace").readlines()[-400:]
                   if not l.startswith('"') and not l.startswith("<<"))[-3000:]
    raise ToolError("TLC failed on %s (exit %s):\n%s" % (module, r.returncode, tail))


def printed_json(outpath, dest, prefix=None):
    """Extracts the JSON strings TLC printed with PrintT(ToJson(x)) (one TLA+ string literal per
    line) into an ndjson file.  Returns the number of lines written."""
    n = 0
    with open(outpath, errors="replace") as f, open(dest, "w") as g:
        for line in f:
            if line.startswith('"[') or line.startswith('"{'):
                try:
                    s = json.loads(line)
                except Exception:
                    continue
                g.write(s)
                g.write("\n")
                n += 1
    return n


def parse_rejected(line):
    """<<"TRACE-REJECTED", "event", 17, "{...json...}">> -> (17, obj)"""
    m = re.match(r'<<"(?:TRACE-)?REJECTED", "(\w+)", (\d+), (".*")>>\s*$', line)
    if not m:
        return None, None
    try:
        return int(m.group(2)), json.loads(json.loads(m.group(3)))
    except Exception:
        return int(m.group(2)), None


# ------------------------------------------------------------------------------------------
# verdicts, evidence


def load_findings():
    p = os.path.join(VERIF, "known_findings.json")
    if not os.path.exists(p):
        return {"known": [], "fixed": []}
    return json.load(open(p))


class Ctx:
    def __init__(self, pid, tier, seed, level="model_checking"):
        self.pid = pid
        self.tier = tier
        self.seed = seed
        self.level = level
        self.t0 = time.time()
        self.work = os.path.join(WORK, pid)
        shutil.rmtree(self.work, ignore_errors=True)
        os.makedirs(self.work, exist_ok=True)
        if not pid.endswith("-replay"):
            shutil.rmtree(os.path.join(VERIF, "replays", pid), ignore_errors=True)
        self.cov = {"states": 0, "transitions": 0, "traces_validated_against_impl": 0,
                    "samples": [], "evaluations": 0, "distinct_nontrivial": 0,
                    "rule": "", "engines": [], "exhaustive": False}
        self.assumptions = []
        self.violations = 0
        self.known_hits = {}
        self.findings = load_findings()
        self.notes = []

    # -- counting
    def add_tlc(self, name, res, role):
        self.cov["states"] += res.distinct
        self.cov["transitions"] += res.generated
        self.cov["engines"].append({"name": name, "role": role, "distinct_states": res.distinct,
                                    "states_generated": res.generated, "depth": res.depth,
                                    "wall_s": round(res.wall, 1)})

    def sample(self, s, cap=6):
        if len(self.cov["samples"]) < cap:
            self.cov["samples"].append(s)

    # -- verdicts
    def match_known(self, detail):
        """Returns the known-finding entry whose matcher accepts this discrepancy."""
        for k in self.findings.get("known", []):
            if k.get("property") != self.pid:
                continue
            m = k.get("match", {})
            if m and all(detail.get(key) == val for key, val in m.items()):
                return k
        return None

    def violation(self, detail):
        """Reports one discrepancy: a KNOWN-FINDING line if its cause matches an entry of
        known_findings.json, otherwise a VIOLATION line with a replay file."""
        k = self.match_known(detail)
        if k is not None:
            if k["id"] not in self.known_hits:
                print("KNOWN-FINDING: property=%s %s" % (self.pid, k["what"]), flush=True)
                self.known_hits[k["id"]] = 0
            self.known_hits[k["id"]] += 1
            return False
        self.violations += 1
        if self.violations > 20:
            return True
        body = dict(detail)
        body.update({"property": self.pid, "tier": self.tier, "seed": self.seed})
        blob = json.dumps(body, sort_keys=True, ensure_ascii=False)
        h = hashlib.sha1(blob.encode()).hexdigest()[:16]
        d = os.path.join(VERIF, "replays", self.pid)
        os.makedirs(d, exist_ok=True)
        path = os.path.join(d, h + ".json")
        with open(path, "w") as f:
            json.dump(body, f, indent=1, ensure_ascii=False)
        print("VIOLATION property=%s replay=%s" % (self.pid, path), flush=True)
        return True

    def finish(self):
        cov = self.cov
        if not cov["samples"]:
            cov["samples"] = ["(no sample recorded)"]
        cov["known_finding_hits"] = self.known_hits
        if self.notes:
            cov["notes"] = self.notes
        ev = {"property_id": self.pid, "tier": self.tier, "seed": self.seed,
              "level": self.level, "coverage": cov, "assumptions": self.assumptions,
              "wall_s": round(time.time() - self.t0, 1), "violations": self.violations}
        os.makedirs(os.path.join(VERIF, "evidence"), exist_ok=True)
        with open(os.path.join(VERIF, "evidence", self.pid + ".json"), "w") as f:
            json.dump(ev, f, indent=1, ensure_ascii=False)
        log("[%s] %s tier done in %.1fs: violations=%d known=%s states=%d traces=%d evals=%d" % (
            self.pid, self.tier, ev["wall_s"], self.violations, self.known_hits,
            cov["states"], cov["traces_validated_against_impl"], cov["evaluations"]))
        return 1 if self.violations else 0


def read_ndjson(path, limit=None):
    out = []
    with open(path) as f:
        for i, l in enumerate(f):
            if limit is not None and i >= limit:
                break
            l = l.strip()
            if l:
                out.append(json.loads(l))
    return out
