------------------------------ MODULE CallLimit ------------------------------
(***************************************************************************)
(* Property-level statement of C12.  A sweep is the sequence of results of *)
(* one parse (fixed grammar, start rule, input) under the call limits      *)
(* 1, 2, 3, ... in this order; rinf is the result with no limit.           *)
(*   Sound:    every result is rinf or the call-limit error;               *)
(*   Monotone: once a limit completes (result other than the call-limit    *)
(*             error) every larger limit gives that same result;           *)
(*   Enough:   a limit of at least the number of calls the unlimited parse *)
(*             makes completes.                                            *)
(* Also usable as a small state machine (Observe) for trace validation.    *)
(***************************************************************************)
EXTENDS Naturals, Sequences

Limit == "CALLLIMIT"

Sound(rinf, sweep)    == \A i \in 1..Len(sweep) : sweep[i].r \in {rinf, Limit}
Monotone(sweep)       == \A i \in 1..Len(sweep) : \A j \in (i + 1)..Len(sweep) :
                            sweep[i].r # Limit => sweep[j].r = sweep[i].r
Enough(n, rinf, sweep) == \A i \in 1..Len(sweep) : sweep[i].l >= n => sweep[i].r = rinf

FirstBad(rinf, sweep) ==
  LET bad == { i \in 1..Len(sweep) : sweep[i].r \notin {rinf, Limit}
                 \/ \E h \in 1..(i - 1) : sweep[h].r # Limit /\ sweep[i].r # sweep[h].r }
  IN IF bad = {} THEN 0 ELSE CHOOSE i \in bad : \A j \in bad : i <= j

\* the same property as a machine over observations in increasing order of the limit
VARIABLES done         \* "none" or the result the sweep completed with
CLInit == done = "none"
Observe(rinf, l, r) ==
  /\ r \in {rinf, Limit}
  /\ (done # "none" => r = done)
  /\ done' = IF r = Limit THEN done ELSE r
==============================================================================
