-------------------------------- MODULE Debugger --------------------------------
(***************************************************************************)
(* The protocol between the controlling thread and the parsing thread of   *)
(* pest_debugger (property C17), one action per critical section of        *)
(* debugger/src/lib.rs:                                                    *)
(*                                                                         *)
(* parser thread of run g (listener called at every rule entry k):         *)
(*   LoadDone  is_done.load(): set => the listener returns true, the parse *)
(*             is abandoned and the thread goes to its final send          *)
(*   Lookup    breakpoints.lock().contains(rule)                           *)
(*   Send      sender.send(Breakpoint(rule, pos))   (blocks while full)    *)
(*   Park      thread::park()                       (returns iff token)    *)
(*   FinSend   sender.send(Eof | Error)             (blocks while full)    *)
(*   FinStore  is_done.store(true)                                         *)
(*   Exit      the thread function returns                                 *)
(* controller:                                                             *)
(*   run  = RunLoad [RunStore RunUnpark] RunJoin RunReset Spawn            *)
(*          (the first run has no previous handle: RunReset Spawn)         *)
(*   cont = ContLoad [ContUnpark]                                          *)
(*   Recv (from the channel of the current run), Add / Del / DelAll        *)
(*                                                                         *)
(* Entries is the sequence of rules the plain VM parse enters, Final its   *)
(* outcome; every run has its own channel of capacity Cap.                 *)
(***************************************************************************)
EXTENDS Naturals, Sequences, FiniteSets, TLC

CONSTANTS Entries, Final, Cap, BpRules, MaxCmds, MaxRuns,
          AllowBadRun,    \* whether the controller may also start a run with a rule the grammar does not define
                          \* and add breakpoints on all grammar rules at once (directed scripts only)
          GrammarRules    \* the rules the grammar defines (built-ins that are entered are not among them)

VARIABLES bps, isDone, gen, th, chan, ctl, ncmd, emptyAtRunLoad,
          hist, sentBp, wakes        \* history variables (hidden by the VIEW when model checking)

vars == <<bps, isDone, gen, th, chan, ctl, ncmd, emptyAtRunLoad, hist, sentBp, wakes>>
view == <<bps, isDone, gen, th, chan, ctl, ncmd, emptyAtRunLoad, sentBp, wakes>>

Runs == 1..MaxRuns
\* bad: started with an undefined rule (its one entry is reported to the listener, then the VM panics);
\* panicked: the thread died that way, so join() on it fails
NoThread == [pc |-> "none", k |-> 0, token |-> FALSE, aborted |-> FALSE, bad |-> FALSE, panicked |-> FALSE]
FirstPc == IF Entries = <<>> THEN "finsend" ELSE "load"

Init ==
  /\ bps = {} /\ isDone = FALSE /\ gen = 0
  /\ th = [g \in Runs |-> NoThread]
  /\ chan = [g \in Runs |-> <<>>]
  /\ ctl = "idle" /\ ncmd = 0 /\ emptyAtRunLoad = FALSE
  /\ hist = <<>> /\ sentBp = [g \in Runs |-> 0] /\ wakes = [g \in Runs |-> 0]

Log(who, g, act, data) == hist' = Append(hist, [who |-> who, g |-> g, act |-> act, data |-> data])

\* ------------------------------------------------------------------ parser thread g
Advance(t) == IF t.k + 1 > Len(Entries) THEN [t EXCEPT !.k = @ + 1, !.pc = "finsend"]
              ELSE [t EXCEPT !.k = @ + 1, !.pc = "load"]

TLoadDone(g) ==
  /\ th[g].pc = "load"
  /\ th' = [th EXCEPT ![g] = IF isDone THEN [@ EXCEPT !.pc = "finsend", !.aborted = TRUE] ELSE [@ EXCEPT !.pc = "lookup"]]
  /\ Log("par", g, "LoadDone", IF isDone THEN "abort" ELSE "go")
  /\ UNCHANGED <<bps, isDone, gen, chan, ctl, ncmd, emptyAtRunLoad, sentBp, wakes>>

\* the look-up takes the lock of the breakpoint table: it waits while the controller holds it
TLookup(g) ==
  /\ th[g].pc = "lookup" /\ ctl # "bpheld"
  /\ th' = [th EXCEPT ![g] = IF @.bad THEN [@ EXCEPT !.pc = "exited", !.panicked = TRUE]      \* undefined rule: the VM panics
                             ELSE IF Entries[@.k] \in bps THEN [@ EXCEPT !.pc = "send"] ELSE Advance(@)]
  /\ Log("par", g, "Lookup", IF th[g].bad THEN "panic" ELSE IF Entries[th[g].k] \in bps THEN "hit" ELSE "miss")
  /\ UNCHANGED <<bps, isDone, gen, chan, ctl, ncmd, emptyAtRunLoad, sentBp, wakes>>

TSend(g) ==
  /\ th[g].pc = "send" /\ Len(chan[g]) < Cap
  /\ chan' = [chan EXCEPT ![g] = Append(@, [t |-> "Breakpoint", k |-> th[g].k])]
  /\ th' = [th EXCEPT ![g].pc = "park"]
  /\ sentBp' = [sentBp EXCEPT ![g] = @ + 1]
  /\ Log("par", g, "Send", th[g].k)
  /\ UNCHANGED <<bps, isDone, gen, ctl, ncmd, emptyAtRunLoad, wakes>>

TPark(g) ==
  /\ th[g].pc = "park" /\ th[g].token
  /\ th' = [th EXCEPT ![g] = Advance([@ EXCEPT !.token = FALSE])]
  /\ Log("par", g, "Park", 0)
  /\ UNCHANGED <<bps, isDone, gen, chan, ctl, ncmd, emptyAtRunLoad, sentBp, wakes>>

TFinSend(g) ==
  /\ th[g].pc = "finsend" /\ Len(chan[g]) < Cap
  /\ chan' = [chan EXCEPT ![g] = Append(@, [t |-> IF th[g].aborted THEN "Aborted" ELSE Final, k |-> 0])]
  /\ th' = [th EXCEPT ![g].pc = "finstore"]
  /\ Log("par", g, "FinSend", 0)
  /\ UNCHANGED <<bps, isDone, gen, ctl, ncmd, emptyAtRunLoad, sentBp, wakes>>

TFinStore(g) ==
  /\ th[g].pc = "finstore"
  /\ isDone' = TRUE
  /\ th' = [th EXCEPT ![g].pc = "exit"]
  /\ Log("par", g, "FinStore", 0)
  /\ UNCHANGED <<bps, gen, chan, ctl, ncmd, emptyAtRunLoad, sentBp, wakes>>

TExit(g) ==
  /\ th[g].pc = "exit"
  /\ th' = [th EXCEPT ![g].pc = "exited"]
  /\ Log("par", g, "Exit", 0)
  /\ UNCHANGED <<bps, isDone, gen, chan, ctl, ncmd, emptyAtRunLoad, sentBp, wakes>>

ParEnabled(g) ==
  \/ th[g].pc \in {"load", "finstore", "exit"}
  \/ th[g].pc = "lookup" /\ ctl # "bpheld"
  \/ th[g].pc \in {"send", "finsend"} /\ Len(chan[g]) < Cap
  \/ th[g].pc = "park" /\ th[g].token

Parser(g) == TLoadDone(g) \/ TLookup(g) \/ TSend(g) \/ TPark(g) \/ TFinSend(g) \/ TFinStore(g) \/ TExit(g)

\* ------------------------------------------------------------------ controller
CmdOk == ctl = "idle" /\ ncmd < MaxCmds

\* no handle: before the first run, and after a join that failed because the previous thread had panicked
NoHandle == gen = 0 \/ th[gen].pc = "gone"
CStartRun(isBad) ==
  /\ CmdOk /\ gen < MaxRuns
  /\ ctl' = IF NoHandle THEN "runreset" ELSE "runload"
  /\ ncmd' = ncmd + 1
  /\ th' = [th EXCEPT ![gen + 1].bad = isBad]          \* remembered in the slot of the thread to be spawned
  /\ Log("ctl", gen, "cmd", IF isBad THEN "runbad" ELSE "run")
  /\ UNCHANGED <<bps, isDone, gen, chan, emptyAtRunLoad, sentBp, wakes>>

CRunLoad ==
  /\ ctl = "runload"
  /\ emptyAtRunLoad' = (chan[gen] = <<>>)
  /\ ctl' = IF isDone THEN "runjoin" ELSE "runstore"
  /\ Log("ctl", gen, "RunLoad", IF isDone THEN "done" ELSE "running")
  /\ UNCHANGED <<bps, isDone, gen, th, chan, ncmd, sentBp, wakes>>

CRunStore ==
  /\ ctl = "runstore" /\ isDone' = TRUE /\ ctl' = "rununpark"
  /\ Log("ctl", gen, "RunStore", 0)
  /\ UNCHANGED <<bps, gen, th, chan, ncmd, emptyAtRunLoad, sentBp, wakes>>

CRunUnpark ==
  /\ ctl = "rununpark" /\ th' = [th EXCEPT ![gen].token = TRUE] /\ ctl' = "runjoin"
  /\ wakes' = [wakes EXCEPT ![gen] = @ + 1]
  /\ Log("ctl", gen, "RunUnpark", 0)
  /\ UNCHANGED <<bps, isDone, gen, chan, ncmd, emptyAtRunLoad, sentBp>>

\* join() on a thread that panicked fails: run() returns the error, nothing is reset or spawned, the handle is gone
CRunJoin ==
  /\ ctl = "runjoin" /\ th[gen].pc = "exited"
  /\ ctl' = IF th[gen].panicked THEN "idle" ELSE "runreset"
  /\ th' = IF th[gen].panicked THEN [th EXCEPT ![gen].pc = "gone", ![gen + 1].bad = FALSE] ELSE th
  /\ Log("ctl", gen, "RunJoin", IF th[gen].panicked THEN "panic" ELSE 0)
  /\ UNCHANGED <<bps, isDone, gen, chan, ncmd, emptyAtRunLoad, sentBp, wakes>>

CRunReset ==
  /\ ctl = "runreset" /\ isDone' = FALSE /\ ctl' = "spawn"
  /\ Log("ctl", gen, "RunReset", 0)
  /\ UNCHANGED <<bps, gen, th, chan, ncmd, emptyAtRunLoad, sentBp, wakes>>

CSpawn ==
  /\ ctl = "spawn" /\ gen' = gen + 1 /\ ctl' = "idle"
  /\ th' = [th EXCEPT ![gen + 1] = [pc |-> IF @.bad THEN "load" ELSE FirstPc, k |-> 1, token |-> FALSE, aborted |-> FALSE,
                                    bad |-> @.bad, panicked |-> FALSE]]
  /\ Log("ctl", gen + 1, "Spawn", 0)
  /\ UNCHANGED <<bps, isDone, chan, ncmd, emptyAtRunLoad, sentBp, wakes>>

CStartCont ==
  /\ CmdOk /\ ctl' = "contload" /\ ncmd' = ncmd + 1
  /\ Log("ctl", gen, "cmd", "cont")
  /\ UNCHANGED <<bps, isDone, gen, th, chan, emptyAtRunLoad, sentBp, wakes>>

CContLoad ==
  /\ ctl = "contload"
  /\ ctl' = IF isDone \/ NoHandle THEN "idle" ELSE "contunpark"
  /\ Log("ctl", gen, "ContLoad", IF isDone THEN "EofReached" ELSE IF NoHandle THEN "RunRuleFirst" ELSE "ok")
  /\ UNCHANGED <<bps, isDone, gen, th, chan, ncmd, emptyAtRunLoad, sentBp, wakes>>

CContUnpark ==
  /\ ctl = "contunpark" /\ th' = [th EXCEPT ![gen].token = TRUE] /\ ctl' = "idle"
  /\ wakes' = [wakes EXCEPT ![gen] = @ + 1]
  /\ Log("ctl", gen, "ContUnpark", 0)
  /\ UNCHANGED <<bps, isDone, gen, chan, ncmd, emptyAtRunLoad, sentBp>>

CRecv ==
  /\ CmdOk /\ gen > 0 /\ chan[gen] # <<>>
  /\ chan' = [chan EXCEPT ![gen] = Tail(@)] /\ ncmd' = ncmd + 1
  /\ Log("ctl", gen, "Recv", Head(chan[gen]))
  /\ UNCHANGED <<bps, isDone, gen, th, ctl, emptyAtRunLoad, sentBp, wakes>>

\* a breakpoint command takes the lock of the table, changes it (logged here: no look-up can run before the release,
\* so when exactly the change happens inside the critical section cannot be observed) and releases it
CBp(op, r) ==
  /\ CmdOk /\ ncmd' = ncmd + 1 /\ ctl' = "bpheld"
  /\ bps' = CASE op = "add" -> bps \cup {r} [] op = "del" -> bps \ {r} [] op = "addall" -> bps \cup GrammarRules [] OTHER -> {}
  /\ Log("ctl", gen, op, r)
  /\ UNCHANGED <<isDone, gen, th, chan, emptyAtRunLoad, sentBp, wakes>>

CBpRelease ==
  /\ ctl = "bpheld" /\ ctl' = "idle"
  /\ Log("ctl", gen, "BpRelease", 0)
  /\ UNCHANGED <<bps, isDone, gen, th, chan, ncmd, emptyAtRunLoad, sentBp, wakes>>

Controller ==
  \/ CStartRun(FALSE) \/ (AllowBadRun /\ CStartRun(TRUE)) \/ CRunLoad \/ CRunStore \/ CRunUnpark \/ CRunJoin \/ CRunReset \/ CSpawn
  \/ CStartCont \/ CContLoad \/ CContUnpark \/ CRecv
  \/ \E r \in BpRules : CBp("add", r) \/ CBp("del", r)
  \/ CBp("delall", "") \/ (AllowBadRun /\ CBp("addall", "")) \/ CBpRelease

Next == Controller \/ \E g \in Runs : Parser(g)
Spec == Init /\ [][Next]_vars

\* ------------------------------------------------------------------ properties
\* S2: a run never delivers more breakpoint events than one plus the wake-ups (cont / restart) it was given
OnePerContinue == \A g \in Runs : sentBp[g] <= 1 + wakes[g]

\* S3: while a thread waits for a continue it has no send pending: its next send needs a wake-up first
NothingWhileWaiting == \A g \in Runs : (th[g].pc = "park" /\ ~th[g].token) => ~ParEnabled(g)

\* L1 as a state predicate: the controller sits in join, had seen an empty channel when it started the
\* restart, and the previous thread can never exit (nobody receives or wakes it while the controller joins)
Stuck == ctl = "runjoin" /\ th[gen].pc # "exited" /\ ~ParEnabled(gen)
RestartTerminates == ~(emptyAtRunLoad /\ Stuck)

\* a controller that issues cont only after receiving: then exactly one event per continue
Quiescent == ctl = "idle" /\ \A g \in Runs : ~ParEnabled(g)
===============================================================================
