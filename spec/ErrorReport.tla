------------------------------ MODULE ErrorReport ------------------------------
(***************************************************************************)
(* Property-level statement of C08 over an attempt history.                *)
(* The history is the sequence of "in"/"out" events of the rule() calls of *)
(* one parse in evaluation order (failed branches included):               *)
(*   [e |-> "in", r, pos, neg, rep]   rule r tried at character position   *)
(*       pos; neg: under an odd number of negative predicates; rep:        *)
(*       reportable (non-silent and not called in atomic mode)             *)
(*   [e |-> "out", ok]                                                     *)
(* An attempt COUNTS if it is reportable and either failed outside         *)
(* negation or matched under negation.  The report is                      *)
(*   position   the greatest start position of a counting attempt (none:   *)
(*              start of input);                                           *)
(*   entries    the counting attempts at that position, where a counting   *)
(*              attempt replaces the entries recorded inside it at the     *)
(*              same position unless exactly one was recorded;             *)
(*   expected / unexpected   the rules of the entries outside / under      *)
(*              negation, as sets.                                         *)
(* Nothing here refers to how the implementation tracks attempts.          *)
(***************************************************************************)
EXTENDS Naturals, Sequences

\* forest of attempts: <<list of nodes, index of the first unconsumed event>>
RECURSIVE Forest(_, _)
Forest(h, i) ==
  IF i > Len(h) \/ h[i].e = "out" THEN << <<>>, i >>
  ELSE LET kids == Forest(h, i + 1)
           j    == kids[2]                              \* the matching "out"
           node == [r |-> h[i].r, pos |-> h[i].pos, neg |-> h[i].neg, rep |-> h[i].rep,
                    ok |-> IF j <= Len(h) THEN h[j].ok ELSE FALSE, kids |-> kids[1]]
           rest == Forest(h, j + 1)
       IN << <<node>> \o rest[1], rest[2] >>

Counts(n) == n.rep /\ ((~n.ok /\ ~n.neg) \/ (n.ok /\ n.neg))

Max2(a, b) == IF a >= b THEN a ELSE b

RECURSIVE MaxPos(_)
MaxPos(f) ==
  IF f = <<>> THEN 0
  ELSE Max2(Max2(IF Counts(f[1]) THEN f[1].pos ELSE 0, MaxPos(f[1].kids)), MaxPos(Tail(f)))

RECURSIVE Entries(_, _)
Entries(f, P) ==
  IF f = <<>> THEN <<>>
  ELSE LET n     == f[1]
           inner == Entries(n.kids, P)
           mine  == IF Counts(n) /\ n.pos = P
                    THEN (IF Len(inner) = 1 THEN inner ELSE << [r |-> n.r, neg |-> n.neg] >>)
                    ELSE inner
       IN mine \o Entries(Tail(f), P)

Report(h) ==
  LET f == Forest(h, 1)[1]
      P == MaxPos(f)
      E == Entries(f, P)
  IN [pos |-> P,       \* character position (1-based), 0 if no attempt counts
      positives |-> { E[i].r : i \in { j \in 1..Len(E) : ~E[j].neg } },
      negatives |-> { E[i].r : i \in { j \in 1..Len(E) : E[j].neg } }]
===============================================================================
