-------------------------------- MODULE FrontEnd --------------------------------
(***************************************************************************)
(* Property C09 as a state machine.  Processing a text as a grammar runs   *)
(* four stages - parse, validate_pairs, consume_rules (which validates the *)
(* AST), optimize - and must end in one of exactly two terminal states:    *)
(* "rules", or "errors" with at least one error; every error is located    *)
(* inside the text on UTF-8 boundaries and renders.  There is no state     *)
(* "panicked", "aborted" or "timed out": an observed run that contains     *)
(* such an outcome is not a behaviour of this machine.                     *)
(***************************************************************************)
EXTENDS Naturals, Sequences

Stages == <<"parse", "validate_pairs", "consume_rules", "optimize", "docs">>

\* the run as the harness records it: a sequence of [stage, outcome] with outcome in
\* {"ok", "errors", "panicked", "aborted", "timed_out"}; after "errors" nothing follows
RunAccepted(stages) ==
  /\ stages # <<>>
  /\ \A i \in 1..Len(stages) : stages[i].outcome \in {"ok", "errors"}
  /\ \A i \in 1..Len(stages) : stages[i].stage = Stages[i]
  /\ \A i \in 1..(Len(stages) - 1) : stages[i].outcome = "ok"
  /\ LET last == stages[Len(stages)] IN
       \/ last.outcome = "errors" /\ last.stage \in {"parse", "validate_pairs", "consume_rules"}
       \/ last.outcome = "ok" /\ last.stage = "docs"

\* lo_ok / hi_ok: the offset is a UTF-8 character boundary of the text (str::is_char_boundary)
ErrorsOk(errors, len) ==
  \A i \in 1..Len(errors) :
     /\ errors[i].lo <= errors[i].hi /\ errors[i].hi <= len
     /\ errors[i].lo_ok /\ errors[i].hi_ok
     /\ errors[i].rendered

TimeBound == 5000     \* milliseconds; texts are small, repetition counts bounded

Accepted(run) ==
  /\ RunAccepted(run.stages)
  /\ (run.stages[Len(run.stages)].outcome = "errors" => run.errors # <<>>)
  /\ ErrorsOk(run.errors, run.len)
  /\ run.elapsed_ms <= TimeBound
===============================================================================
