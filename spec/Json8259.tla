---------------------------------- MODULE Json8259 ----------------------------------
(***************************************************************************)
(* RFC 8259 as a recursive-descent recognizer over code points (property   *)
(* C18).  Written from the RFC's ABNF, independently of pest:              *)
(*   JSON-text = ws value ws                                               *)
(*   value  = false / null / true / object / array / number / string      *)
(*   object = "{" ws [ member *( ws "," ws member ) ] ws "}"               *)
(*   member = string ws ":" ws value                                       *)
(*   array  = "[" ws [ value *( ws "," ws value ) ] ws "]"                 *)
(*   number = [ "-" ] int [ frac ] [ exp ]                                 *)
(*   string = %x22 *char %x22, char = unescaped / "\" ( %x22 / "\" / "/" / *)
(*            b / f / n / r / t / u 4HEXDIG ),                             *)
(*            unescaped = %x20-21 / %x23-5B / %x5D-10FFFF                  *)
(*   ws = *( %x20 / %x09 / %x0A / %x0D )                                   *)
(* Alongside acceptance it builds the tree the bundled parser is expected  *)
(* to return: one node per value, object, member ("pair"), array, string,  *)
(* number and literal (bool / null), each with its exact span; character   *)
(* positions are 1-based, spans are [s, e).                                *)
(***************************************************************************)
EXTENDS Naturals, Sequences

IsWs(c) == c \in {32, 9, 10, 13}
IsDigit(c) == c >= 48 /\ c <= 57
IsHex(c) == IsDigit(c) \/ (c >= 97 /\ c <= 102) \/ (c >= 65 /\ c <= 70)
At(s, i) == IF i <= Len(s) THEN s[i] ELSE 0 - 1        \* -1 = end of input

RECURSIVE SkipWs(_, _)
SkipWs(s, i) == IF i <= Len(s) /\ IsWs(s[i]) THEN SkipWs(s, i + 1) ELSE i

RECURSIVE Digits(_, _)
Digits(s, i) == IF IsDigit(At(s, i)) THEN Digits(s, i + 1) ELSE i     \* position after the digit run

Node(r, a, b, kids) == [r |-> r, s |-> a, e |-> b, tag |-> "", c |-> kids]
Bad == [ok |-> FALSE, i |-> 0, t |-> <<>>]
Good(i, t) == [ok |-> TRUE, i |-> i, t |-> t]

Lit(s, i, word) == i + Len(word) - 1 <= Len(s) /\ SubSeq(s, i, i + Len(word) - 1) = word

\* number starting at i
Number(s, i) ==
  LET a == IF At(s, i) = 45 THEN i + 1 ELSE i                          \* [ minus ]
      b == IF At(s, a) = 48 THEN a + 1                                 \* zero
           ELSE IF At(s, a) >= 49 /\ At(s, a) <= 57 THEN Digits(s, a + 1)
           ELSE 0
  IN IF b = 0 THEN Bad
     ELSE LET c == IF At(s, b) = 46 /\ IsDigit(At(s, b + 1)) THEN Digits(s, b + 1) ELSE b      \* [ frac ]
              \* a "." that is not followed by a digit is not part of the number (and then the text is not JSON)
              d == IF At(s, c) \in {101, 69}
                   THEN LET g == IF At(s, c + 1) \in {43, 45} THEN c + 2 ELSE c + 1 IN
                        IF IsDigit(At(s, g)) THEN Digits(s, g) ELSE c
                   ELSE c
          IN Good(d, <<Node("number", i, d, <<>>)>>)

\* characters of a string body starting at i; returns the position of the closing quote or 0
RECURSIVE StrBody(_, _)
StrBody(s, i) ==
  LET c == At(s, i) IN
  IF c = 34 THEN i
  ELSE IF c = 92
       THEN LET d == At(s, i + 1) IN
            IF d \in {34, 92, 47, 98, 102, 110, 114, 116} THEN StrBody(s, i + 2)
            ELSE IF d = 117 /\ IsHex(At(s, i + 2)) /\ IsHex(At(s, i + 3)) /\ IsHex(At(s, i + 4)) /\ IsHex(At(s, i + 5))
                 THEN StrBody(s, i + 6)
            ELSE 0
  ELSE IF c >= 32 THEN StrBody(s, i + 1)         \* unescaped: everything from %x20 except the quote and the backslash
  ELSE 0                                         \* control character or end of input

String(s, i) ==
  IF At(s, i) # 34 THEN Bad
  ELSE LET q == StrBody(s, i + 1) IN
       IF q = 0 THEN Bad ELSE Good(q + 1, <<Node("string", i, q + 1, <<>>)>>)

RECURSIVE Value(_, _), Members(_, _, _), Elements(_, _, _)

\* value at i (no leading whitespace); result tree is <<value-node>>
Value(s, i) ==
  LET c == At(s, i)
      inner ==
        IF c = 34 THEN String(s, i)
        ELSE IF c = 45 \/ IsDigit(c) THEN Number(s, i)
        ELSE IF c = 123       \* {
             THEN LET j == SkipWs(s, i + 1) IN
                  IF At(s, j) = 125 THEN Good(j + 1, <<Node("object", i, j + 1, <<>>)>>)
                  ELSE LET m == Members(s, j, <<>>) IN
                       IF m.ok /\ At(s, m.i) = 125 THEN Good(m.i + 1, <<Node("object", i, m.i + 1, m.t)>>) ELSE Bad
        ELSE IF c = 91        \* [
             THEN LET j == SkipWs(s, i + 1) IN
                  IF At(s, j) = 93 THEN Good(j + 1, <<Node("array", i, j + 1, <<>>)>>)
                  ELSE LET m == Elements(s, j, <<>>) IN
                       IF m.ok /\ At(s, m.i) = 93 THEN Good(m.i + 1, <<Node("array", i, m.i + 1, m.t)>>) ELSE Bad
        ELSE IF Lit(s, i, <<116, 114, 117, 101>>) THEN Good(i + 4, <<Node("bool", i, i + 4, <<>>)>>)
        ELSE IF Lit(s, i, <<102, 97, 108, 115, 101>>) THEN Good(i + 5, <<Node("bool", i, i + 5, <<>>)>>)
        ELSE IF Lit(s, i, <<110, 117, 108, 108>>) THEN Good(i + 4, <<Node("null", i, i + 4, <<>>)>>)
        ELSE Bad
  IN IF inner.ok THEN Good(inner.i, <<Node("value", i, inner.i, inner.t)>>) ELSE Bad

\* member *( ws "," ws member ) ws ; i is at the first member; returns position of what follows the trailing ws
Members(s, i, acc) ==
  LET k == String(s, i) IN
  IF ~k.ok THEN Bad
  ELSE LET j == SkipWs(s, k.i) IN
       IF At(s, j) # 58 THEN Bad
       ELSE LET v == Value(s, SkipWs(s, j + 1)) IN
            IF ~v.ok THEN Bad
            ELSE LET acc2 == Append(acc, Node("pair", i, v.i, k.t \o v.t))
                     n    == SkipWs(s, v.i)
                 IN IF At(s, n) = 44 THEN Members(s, SkipWs(s, n + 1), acc2) ELSE Good(n, acc2)

Elements(s, i, acc) ==
  LET v == Value(s, i) IN
  IF ~v.ok THEN Bad
  ELSE LET acc2 == acc \o v.t
           n    == SkipWs(s, v.i)
       IN IF At(s, n) = 44 THEN Elements(s, SkipWs(s, n + 1), acc2) ELSE Good(n, acc2)

\* JSON-text = ws value ws ; the expected tree is json(whole input)[ value, EOI ]
JsonText(s) ==
  LET v == Value(s, SkipWs(s, 1)) IN
  IF v.ok /\ SkipWs(s, v.i) = Len(s) + 1
  THEN [ok |-> TRUE, t |-> <<Node("json", 1, Len(s) + 1, v.t \o <<Node("EOI", Len(s) + 1, Len(s) + 1, <<>>)>>)>>]
  ELSE [ok |-> FALSE, t |-> <<>>]
=====================================================================================
