-------------------------------- MODULE LineCol --------------------------------
(***************************************************************************)
(* Property-level definitions for C10.  A text is a sequence of code       *)
(* points; character positions are 1..Len+1 (the position before character *)
(* i, or the end); byte offsets are what pest reports.                     *)
(*   line   = 1 + number of LF before the position                         *)
(*   column = 1 + number of characters between the last LF before the      *)
(*            position and the position (CR is an ordinary character; a    *)
(*            CRLF pair ends a line because of its LF)                     *)
(*   LineAt = the line containing the position, terminator included        *)
(*   Lines  = the consecutive lines that overlap a span whose end offset   *)
(*            counts as part of the span, and nothing at end of input      *)
(***************************************************************************)
EXTENDS Naturals, Sequences

Width(c) == IF c < 128 THEN 1 ELSE IF c < 2048 THEN 2 ELSE IF c < 65536 THEN 3 ELSE 4
\* (recursion on an index, not on Tail: TLC passes arguments lazily and a chain of Tails overflows)
RECURSIVE ByteSum(_, _)
ByteSum(s, n) == IF n = 0 THEN 0 ELSE Width(s[n]) + ByteSum(s, n - 1)
ByteLen(s) == ByteSum(s, Len(s))
\* byte offset of character position p (1-based)
ByteOff(s, p) == ByteSum(s, p - 1)
Boundaries(s) == { ByteOff(s, p) : p \in 1..(Len(s) + 1) }

LF == 10

\* index of the last LF strictly before position p, 0 if none
LastLF(s, p) == LET S == { j \in 1..(p - 1) : s[j] = LF } IN IF S = {} THEN 0 ELSE CHOOSE j \in S : \A k \in S : k <= j
\* index of the first LF at or after position p, Len+1... 0 if none
NextLF(s, p) == LET S == { j \in p..Len(s) : s[j] = LF } IN IF S = {} THEN 0 ELSE CHOOSE j \in S : \A k \in S : j <= k

RECURSIVE CountLF(_, _)
CountLF(s, p) == IF p <= 1 THEN 0 ELSE (IF s[p - 1] = LF THEN 1 ELSE 0) + CountLF(s, p - 1)
Line(s, p) == 1 + CountLF(s, p)
Col(s, p)  == p - LastLF(s, p)

LineStart(s, p) == LastLF(s, p) + 1                               \* character position
LineEnd(s, p)   == IF NextLF(s, p) = 0 THEN Len(s) + 1 ELSE NextLF(s, p) + 1   \* position after the terminator
LineAt(s, p)    == SubSeq(s, LineStart(s, p), LineEnd(s, p) - 1)

RECURSIVE LinesFrom(_, _, _)
LinesFrom(s, p, q) ==       \* spans as <<start position, end position>>
  IF p > q \/ p = Len(s) + 1 THEN <<>>
  ELSE << <<LineStart(s, p), LineEnd(s, p)>> >> \o LinesFrom(s, LineEnd(s, p), q)

SpanOk(s, a, b) == a \in Boundaries(s) /\ b \in Boundaries(s) /\ a <= b

\* ---- the algebra of spans (byte offsets): what Span::get, Span::split, Position::span and merge_spans answer
\* Span::get on the span [a, b) with the relative byte range [i, j): the sub-span, or nothing (<<>>) unless both ends
\* are boundaries inside the span and in order
SubSpan(s, a, b, i, j) == IF i <= j /\ a + j <= b /\ SpanOk(s, a + i, a + j) THEN <<a + i, a + j>> ELSE <<>>
\* merge_spans: the hull of two spans that overlap or touch, nothing otherwise
MinN(x, y) == IF x <= y THEN x ELSE y
MaxN(x, y) == IF x >= y THEN x ELSE y
Merged(a, b, c, d) == IF b >= c /\ a <= d THEN <<MinN(a, c), MaxN(b, d)>> ELSE <<>>
===============================================================================
