------------------------------- MODULE MC_Debugger -------------------------------
(***************************************************************************)
(* Model checking and behaviour generation for C17.  Entries / Final come  *)
(* from a real VM run with a recording listener (IOEnv.ENTRIES, written by *)
(* the harness).  Every interleaving of the controller's sub-steps with    *)
(* the parser threads' sub-steps is explored for every controller script   *)
(* of up to MaxCmds commands.  A violated property prints the history that *)
(* leads to it ("CEX"); in simulation mode every quiescent end of a script *)
(* prints its history ("BEH"); both are replayed on the real debugger.     *)
(***************************************************************************)
EXTENDS Debugger, Json, IOUtils

EnvRec == ndJsonDeserialize(IOEnv.ENTRIES)[1]
EntriesDef == EnvRec.entries
FinalDef == EnvRec.final
BpRulesDef == { EnvRec.entries[i] : i \in 1..Len(EnvRec.entries) } \ {"top"}

\* the cause a stuck restart is identified by (known_findings.json): the previous thread is blocked in a send
\* into a full channel that nobody will read while the controller joins
BlockedSending == gen > 0 /\ th[gen].pc \in {"send", "finsend"} /\ Len(chan[gen]) >= Cap
Dump(kind, name) == PrintT(<<kind, name, ToJson([hist |-> hist, chan |-> [g \in 1..gen |-> chan[g]], expect_stuck |-> (ctl = "runjoin" /\ Stuck),
                                                 stuck_pc |-> IF gen > 0 THEN th[gen].pc ELSE "none", blocked_sending |-> BlockedSending])>>)

InvOnePerContinue == OnePerContinue \/ (Dump("CEX", "OnePerContinue") /\ FALSE)
InvNothingWhileWaiting == NothingWhileWaiting \/ (Dump("CEX", "NothingWhileWaiting") /\ FALSE)
InvRestartTerminates == RestartTerminates \/ (Dump("CEX", "RestartTerminates") /\ FALSE)
\* the same, not counting the known cause: any other way to get stuck is reported separately
InvRestartTerminatesOtherwise == (RestartTerminates \/ BlockedSending) \/ (Dump("CEX", "RestartTerminatesOtherwise") /\ FALSE)

\* behaviour generation (simulation): the script is used up and nothing can move
Done == ncmd = MaxCmds /\ Quiescent
EmitBehaviour == Done => Dump("BEH", "end")
\* stuck ends are behaviours too (the open run() never returns)
EmitStuck == (ctl = "runjoin" /\ Stuck) => Dump("BEH", "stuck")
===============================================================================
