------------------------------- MODULE MC_Debugger -------------------------------
(***************************************************************************)
(* Model checking and behaviour generation for C17.  Entries / Final come  *)
(* from a real VM run with a recording listener (IOEnv.ENTRIES, written by *)
(* the harness).  Every interleaving of the controller's sub-steps with    *)
(* the parser threads' sub-steps is explored for every controller script   *)
(* of up to MaxCmds commands.  A violated property prints the history that *)
(* leads to it ("CEX"); in simulation mode every quiescent end of a script *)
(* prints its history ("BEH"); both are replayed on the real debugger.     *)
(***************************************************************************)
EXTENDS Debugger, Json, IOUtils

EnvRec == ndJsonDeserialize(IOEnv.ENTRIES)[1]
EntriesDef == EnvRec.entries
FinalDef == EnvRec.final
GrammarRulesDef == IF "rules" \in DOMAIN EnvRec THEN { EnvRec.rules[i] : i \in 1..Len(EnvRec.rules) } ELSE {}
BpRulesDef == { EnvRec.entries[i] : i \in 1..Len(EnvRec.entries) } \ {"top"}

\* the cause a stuck restart is identified by (known_findings.json): the previous thread is blocked in a send
\* into a full channel that nobody will read while the controller joins
BlockedSending == gen > 0 /\ th[gen].pc \in {"send", "finsend"} /\ Len(chan[gen]) >= Cap
Dump(kind, name) == PrintT(<<kind, name, ToJson([hist |-> hist, chan |-> [g \in 1..gen |-> chan[g]], expect_stuck |-> (ctl = "runjoin" /\ Stuck),
                                                 stuck_pc |-> IF gen > 0 THEN th[gen].pc ELSE "none", blocked_sending |-> BlockedSending,
                                                 parked |-> [g \in 1..gen |-> th[g].pc = "park" /\ ~th[g].token]])>>)

InvOnePerContinue == OnePerContinue \/ (Dump("CEX", "OnePerContinue") /\ FALSE)
InvNothingWhileWaiting == NothingWhileWaiting \/ (Dump("CEX", "NothingWhileWaiting") /\ FALSE)
InvRestartTerminates == RestartTerminates \/ (Dump("CEX", "RestartTerminates") /\ FALSE)
\* the same, not counting the known cause: any other way to get stuck is reported separately
InvRestartTerminatesOtherwise == (RestartTerminates \/ BlockedSending) \/ (Dump("CEX", "RestartTerminatesOtherwise") /\ FALSE)

\* behaviour generation (simulation): the script is used up and nothing can move
Done == ncmd = MaxCmds /\ Quiescent
EmitBehaviour == Done => Dump("BEH", "end")
\* stuck ends are behaviours too (the open run() never returns)
EmitStuck == (ctl = "runjoin" /\ Stuck) => Dump("BEH", "stuck")

\* ---- directed scripts ("test purposes"): the controller's commands are fixed by the record's `script`, TLC explores
\* every interleaving of that script with the parser threads, and every quiescent end is a behaviour to replay.
\* Scripts reach situations that random scripts of the same length practically never do: a continue that arrives
\* after the last breakpoint of a run followed by a restart, a breakpoint deleted or added while the parser waits ...
ScriptDef == IF "script" \in DOMAIN EnvRec THEN EnvRec.script ELSE <<>>
IsCmd(h) == h.who = "ctl" /\ h.act \in {"cmd", "Recv", "add", "del", "delall", "addall"}
CmdOf(h) == CASE h.act = "cmd" -> [c |-> h.data, r |-> ""]
              [] h.act = "Recv" -> [c |-> "recv", r |-> ""]
              [] h.act \in {"delall", "addall"} -> [c |-> h.act, r |-> ""]
              [] OTHER -> [c |-> h.act, r |-> h.data]
FollowsScript ==
  LET cs == SelectSeq(hist, IsCmd) IN
  Len(cs) <= Len(ScriptDef) /\ \A i \in 1..Len(cs) : CmdOf(cs[i]) = ScriptDef[i]
ScriptDone == ncmd = Len(ScriptDef) /\ Quiescent
EmitScripted == (ScriptDone /\ FollowsScript) => Dump("BEH", "script")
===============================================================================
