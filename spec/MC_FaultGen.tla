------------------------------- MODULE MC_FaultGen -------------------------------
(***************************************************************************)
(* C09 input generation.  Correct grammar texts are written by the speller *)
(* (MetaSyntax) for every small rule set and then damaged by exactly one   *)
(* fault of a catalogue: a token dropped, duplicated, swapped with its     *)
(* neighbour, or replaced by / preceded by one of the bad tokens below     *)
(* (out-of-range escapes, unterminated literals and comments, overflowing  *)
(* numbers, zero counts, keywords and non-ASCII text as names, stray       *)
(* operators and delimiters, a duplicate rule, an undefined rule ...).     *)
(* Every text - with its fault - is printed for the harness; FrontEnd.tla  *)
(* says what the real front-end may do with it.                            *)
(***************************************************************************)
EXTENDS MetaSyntax, TLC, Json
CONSTANTS Shard, NShards
VARIABLES c

S(cp) == [t |-> "str", s |-> cp]
Id(str, cp) == [t |-> "id", n |-> str, name |-> cp]
Base == { S(<<97>>), Id("r1", <<114, 49>>), [t |-> "range", lo |-> 97, hi |-> 122],
          [t |-> "peek", lo |-> 1, hi |-> 2, open |-> FALSE, omitlo |-> FALSE], [t |-> "ins", s |-> <<98>>] }
Exprs == Base
         \cup { [t |-> op, a |-> x] : op \in {"rep", "not", "push"}, x \in {S(<<97>>), Id("r1", <<114, 49>>)} }
         \cup { [t |-> "minmax", a |-> S(<<97>>), m |-> 1, n |-> 2], [t |-> "exact", a |-> Id("r1", <<114, 49>>), n |-> 2] }
         \cup { [t |-> op, a |-> S(<<97>>), b |-> Id("r1", <<114, 49>>)] : op \in {"seq", "alt"} }
Style == [par |-> "min", gap |-> "sp", lead |-> FALSE, esc |-> "raw", num |-> "plain", docs |-> FALSE, leadin |-> FALSE]
RulesOf(e) == << [name |-> <<114, 48>>, ty |-> "", tych |-> <<>>, e |-> e],
                 [name |-> <<114, 49>>, ty |-> "@", tych |-> <<64>>, e |-> S(<<120>>)] >>

Bad == << <<34, 92, 117, 123, 49, 49, 48, 48, 48, 48, 125, 34>>,
         <<34, 92, 117, 123, 68, 56, 48, 48, 125, 34>>,
         <<34, 92, 113, 34>>,
         <<34, 97, 98, 99>>,
         <<47, 42, 32, 120>>,
         <<57, 57, 57, 57, 57, 57, 57, 57, 57, 57, 57>>,
         <<123, 48, 125>>,
         <<123, 44, 48, 125>>,
         <<123, 52, 50, 57, 52, 57, 54, 55, 50, 57, 54, 125>>,
         <<123, 50, 44, 57, 57, 57, 57, 57, 57, 57, 57, 57, 57, 57, 125>>,
         <<80, 69, 69, 75, 91, 57, 57, 57, 57, 57, 57, 57, 57, 57, 57, 57, 46, 46, 93>>,
         <<80, 69, 69, 75, 91, 46, 46, 45, 57, 57, 57, 57, 57, 57, 57, 57, 57, 57, 57, 93>>,
         <<80, 69, 69, 75, 91, 49, 46, 46>>,
         <<39, 92, 117, 123, 70, 70, 70, 70, 70, 70, 125, 39, 46, 46, 39, 98, 39>>,
         <<39, 97, 98, 39, 46, 46, 39, 99, 39>>,
         <<39, 97, 39, 46, 46>>,
         <<65, 78, 89>>,
         <<80, 85, 83, 72>>,
         <<233>>,
         <<102, 110>>,
         <<35, 116, 32, 61>>,
         <<94>>,
         <<126>>,
         <<124>>,
         <<40>>,
         <<41>>,
         <<123>>,
         <<125>>,
         <<95>>,
         <<46, 46>>,
         <<39>>,
         <<34>>,
         <<92>>,
         <<0>>,
         <<80, 85, 83, 72, 95, 76, 73, 84, 69, 82, 65, 76, 40, 34, 97, 34, 41>>,
         <<80, 85, 83, 72, 95, 76, 73, 84, 69, 82, 65, 76, 40, 97, 41>>,
         <<34, 92, 120, 52, 34>>,
         <<34, 92, 117, 123, 49, 125, 34>>,
         <<34, 92, 117, 123, 49, 50, 51, 52, 53, 54, 55, 125, 34>>,
         <<40, 32, 124, 32, 41>>,
         <<40, 41>>,
         <<114, 48, 32, 61, 32, 123, 32, 34, 120, 34, 32, 125>>,
         <<122, 122>>,
         <<38>>,
         <<33>>,
         <<34, 97, 34, 123, 49, 44, 48, 125>>,
         <<47, 47, 47>>,
         <<47, 47, 33>>,
         <<80, 69, 69, 75, 95, 65, 76, 76>>,
         <<114, 57>> >>

Drop(ts, i) == SubSeq(ts, 1, i - 1) \o SubSeq(ts, i + 1, Len(ts))
Dup(ts, i) == SubSeq(ts, 1, i) \o SubSeq(ts, i, Len(ts))
Swap(ts, i) == SubSeq(ts, 1, i - 1) \o <<ts[i + 1], ts[i]>> \o SubSeq(ts, i + 2, Len(ts))
Repl(ts, i, b) == [ts EXCEPT ![i] = b]
Ins(ts, i, b) == SubSeq(ts, 1, i - 1) \o <<b>> \o SubSeq(ts, i, Len(ts))

Faults(ts) ==
  { [kind |-> "drop", at |-> i, toks |-> Drop(ts, i)] : i \in 1..Len(ts) }
  \cup { [kind |-> "dup", at |-> i, toks |-> Dup(ts, i)] : i \in 1..Len(ts) }
  \cup { [kind |-> "swap", at |-> i, toks |-> Swap(ts, i)] : i \in 1..(Len(ts) - 1) }
  \cup { [kind |-> "replace", at |-> i, toks |-> Repl(ts, i, Bad[b])] : i \in 1..Len(ts), b \in 1..Len(Bad) }
  \cup { [kind |-> "insert", at |-> i, toks |-> Ins(ts, i, Bad[b])] : i \in 1..(Len(ts) + 1), b \in 1..Len(Bad) }
  \cup { [kind |-> "none", at |-> 0, toks |-> ts] }

\* every counted / repeated form nested under every other one: valid grammars that go through the
\* whole pipeline (unrolling included); they only get the light faults
Cnt(op, x) == CASE op = "exact" -> [t |-> "exact", a |-> x, n |-> 2] [] op = "min" -> [t |-> "min", a |-> x, n |-> 1]
                [] op = "max" -> [t |-> "max", a |-> x, n |-> 2] [] op = "minmax" -> [t |-> "minmax", a |-> x, m |-> 1, n |-> 2]
                [] OTHER -> [t |-> op, a |-> x]
Forms == {"exact", "min", "max", "minmax", "rep1", "opt", "rep", "push", "not"}
Nested == { Cnt(o, Cnt(i, x)) : o \in Forms, i \in Forms \ {"opt", "rep", "not"}, x \in {S(<<97>>), [t |-> "seq", a |-> S(<<97>>), b |-> Id("r1", <<114, 49>>)]} }
LightFaults(ts) ==
  { [kind |-> "drop", at |-> i, toks |-> Drop(ts, i)] : i \in 1..Len(ts) }
  \cup { [kind |-> "swap", at |-> i, toks |-> Swap(ts, i)] : i \in 1..(Len(ts) - 1) }
  \cup { [kind |-> "none", at |-> 0, toks |-> ts] }

\* rule sets that are well spelled but whose reference graph is arbitrary: every way three rules can refer to each
\* other through a bare reference, a sequence, a choice, a repetition or an optional head - left-recursive cycles of
\* every length, entered from inside and from outside, among them.  The front-end has to answer with rules or
\* with located errors here too.
Nm(i) == <<114, 48 + i>>
IdR(i) == Id(CASE i = 0 -> "r0" [] i = 1 -> "r1" [] OTHER -> "r2", Nm(i))
X == S(<<120>>)
Y == S(<<121>>)      \* (a different first alternative: `x | x ~ ..` would be factored away before the later passes see it)
RefBodies == UNION { { IdR(i), [t |-> "seq", a |-> IdR(i), b |-> X], [t |-> "alt", a |-> IdR(i), b |-> X],
                       [t |-> "rep", a |-> IdR(i)], [t |-> "seq", a |-> [t |-> "opt", a |-> X], b |-> IdR(i)],
                       [t |-> "alt", a |-> Y, b |-> [t |-> "seq", a |-> X, b |-> [t |-> "seq", a |-> IdR(i), b |-> IdR(i)]]],
                       [t |-> "alt", a |-> [t |-> "seq", a |-> [t |-> "opt", a |-> X], b |-> IdR(i)], b |-> X],
                       [t |-> "rep", a |-> [t |-> "seq", a |-> [t |-> "opt", a |-> X], b |-> IdR(i)]] } : i \in 0..2 } \cup {X}
ShapeOn(k, i) ==
  CASE k = 1 -> IdR(i)
    [] k = 2 -> [t |-> "seq", a |-> IdR(i), b |-> X]
    [] k = 3 -> [t |-> "alt", a |-> IdR(i), b |-> X]
    [] k = 4 -> [t |-> "rep", a |-> IdR(i)]
    [] k = 5 -> [t |-> "seq", a |-> [t |-> "opt", a |-> X], b |-> IdR(i)]
    [] k = 6 -> [t |-> "alt", a |-> Y, b |-> [t |-> "seq", a |-> X, b |-> [t |-> "seq", a |-> IdR(i), b |-> IdR(i)]]]
    [] k = 7 -> [t |-> "alt", a |-> [t |-> "seq", a |-> [t |-> "opt", a |-> X], b |-> IdR(i)], b |-> X]
    [] OTHER -> [t |-> "rep", a |-> [t |-> "seq", a |-> [t |-> "opt", a |-> X], b |-> IdR(i)]]
SemToks(f) == AllToks(<< [name |-> Nm(0), ty |-> "", tych |-> <<>>, e |-> f[0]],
                         [name |-> Nm(1), ty |-> "", tych |-> <<>>, e |-> f[1]],
                         [name |-> Nm(2), ty |-> "", tych |-> <<>>, e |-> f[2]] >>, Style)

\* the same reference graphs among rules that are NAMED LIKE BUILT-INS (a grammar may redefine every built-in that is
\* not a keyword: its own definition is then the one in force, for the validator's walks too), with a fourth, atomic
\* rule that uses the first of them in the scan idiom `(!name ~ ANY)*` - the shape the optimizer's skip pass looks into
BN(i) == CASE i = 0 -> "ASCII_ALPHA" [] i = 1 -> "ASCII_ALPHANUMERIC" [] OTHER -> "NEWLINE"
BCp(i) == CASE i = 0 -> <<65, 83, 67, 73, 73, 95, 65, 76, 80, 72, 65>> [] i = 1 -> <<65, 83, 67, 73, 73, 95, 65, 76, 80, 72, 65, 78, 85, 77, 69, 82, 73, 67>> [] OTHER -> <<78, 69, 87, 76, 73, 78, 69>>
RECURSIVE RenB(_)
RenB(e) == CASE e.t = "id" -> (IF e.n = "r0" THEN Id(BN(0), BCp(0)) ELSE IF e.n = "r1" THEN Id(BN(1), BCp(1)) ELSE IF e.n = "r2" THEN Id(BN(2), BCp(2)) ELSE e)
             [] e.t \in {"seq", "alt"} -> [e EXCEPT !.a = RenB(e.a), !.b = RenB(e.b)]
             [] e.t \in {"rep", "opt", "not"} -> [e EXCEPT !.a = RenB(e.a)]
             [] OTHER -> e
ScanOn(i) == [t |-> "rep", a |-> [t |-> "seq", a |-> [t |-> "not", a |-> Id(BN(i), BCp(i))], b |-> Id("ANY", <<65, 78, 89>>)]]
SemToksB(f, wty, wch) == AllToks(<< [name |-> BCp(0), ty |-> "", tych |-> <<>>, e |-> RenB(f[0])],
                                   [name |-> BCp(1), ty |-> "", tych |-> <<>>, e |-> RenB(f[1])],
                                   [name |-> BCp(2), ty |-> "", tych |-> <<>>, e |-> RenB(f[2])],
                                   [name |-> <<119>>, ty |-> wty, tych |-> wch, e |-> ScanOn(0)] >>, Style)

RECURSIVE H(_)
H(ts) == IF ts = <<>> THEN 11 ELSE (31 * H(Tail(ts)) + Len(ts[1]) + (IF ts[1] = <<>> THEN 0 ELSE ts[1][1])) % 1009

Cases == UNION { { f \in Faults(AllToks(RulesOf(e), Style)) : H(f.toks) % NShards = Shard } : e \in Exprs }
         \cup UNION { { f \in LightFaults(AllToks(RulesOf(e), Style)) : H(f.toks) % NShards = Shard } : e \in Nested }
         \cup { x \in { [kind |-> "none", at |-> 0, toks |-> SemToks(f)] : f \in [0..2 -> RefBodies] } : H(x.toks) % NShards = Shard }
         \* ... and, in EVERY shard, the rule sets in which all three rules have the same shape and refer to the rule d places
         \* further on (d = 0: each to itself): every shape as a self-reference, as a two-cycle neighbour and as a three-cycle
         \cup { [kind |-> "none", at |-> 0, toks |-> SemToks([i \in 0..2 |-> ShapeOn(k, (i + d) % 3)])] : k \in 1..8, d \in 0..2 }
         \cup { [kind |-> "none", at |-> 0, toks |-> SemToksB([i \in 0..2 |-> ShapeOn(k, (i + d) % 3)], w[1], w[2])] :
                  k \in 1..8, d \in 0..2, w \in { <<"@", <<64>>>>, <<"", <<>>>> } }
         \* ... and two-cycles between the first two of them (the third stands aside)
         \cup { [kind |-> "none", at |-> 0, toks |-> SemToksB([i \in 0..2 |-> IF i = 2 THEN X ELSE ShapeOn(k, 1 - i)], "@", <<64>>)] : k \in 1..8 }

Init == c \in Cases
Next == UNCHANGED c
Spec == Init /\ [][Next]_c
Emit == PrintT(ToJson([text |-> Join(c.toks, Style), fault |-> c.kind, at |-> c.at]))
===============================================================================
