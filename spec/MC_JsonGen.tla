------------------------------ MODULE MC_JsonGen ------------------------------
(***************************************************************************)
(* T11 and behaviour generation for C18.  Strings: (a) every string up to  *)
(* ShortLen over a 24-character alphabet of class representatives;         *)
(* (b) a pool of valid documents (all value kinds, escapes, number shapes, *)
(* whitespace, nesting) and EVERY single-character edit of each of them    *)
(* (delete / insert / replace with each alphabet character at each         *)
(* position) - the near-misses: leading zeros, bare signs, trailing        *)
(* commas, control characters and bad escapes in strings, truncated        *)
(* literals, missing colons.  For each string TLC evaluates RFC 8259       *)
(* (Json8259) and the documented semantics of the CURRENT json.pest (its   *)
(* AST, exported from the real reader, is read from IOEnv.GRAMMAR) and     *)
(* requires agreement on acceptance and tree; each string is printed with  *)
(* the RFC verdict and tree for replay on the real JsonParser.             *)
(***************************************************************************)
EXTENDS Json8259, PegSemantics, TLC, Json, IOUtils
CONSTANTS ShortLen, Shard, NShards, Family
VARIABLES s

G == ndJsonDeserialize(IOEnv.GRAMMAR)[1]

Sigma == {48, 49, 45, 43, 46, 101, 44, 58, 34, 92, 123, 125, 91, 93, 97, 117, 116, 32, 10, 1, 127, 233, 47, 69}
RECURSIVE Strs(_)
Strs(n) == IF n = 0 THEN {<<>>} ELSE {<<>>} \cup { <<c>> \o t : c \in Sigma, t \in Strs(n - 1) }

Ch(str) == str      \* documents are written as sequences of code points below
q == <<34>>
Atoms == { <<48>>, <<45, 49>>, <<49, 48>>, <<49, 46, 53>>, <<49, 101, 50>>, <<45, 48, 46, 48, 69, 43, 49>>,
           <<116, 114, 117, 101>>, <<102, 97, 108, 115, 101>>, <<110, 117, 108, 108>>,
           q \o q, q \o <<97>> \o q, q \o <<92, 110>> \o q, q \o <<92, 117, 48, 48, 101, 57>> \o q, q \o <<233>> \o q,
           q \o <<92, 34, 47>> \o q, q \o <<128512>> \o q }
Small == { <<49>>, <<116, 114, 117, 101>>, q \o <<97>> \o q, <<91, 93>>, <<123, 125>> }
Key == q \o <<97>> \o q
Lvl1 == { <<91>> \o x \o <<93>> : x \in Small } \cup { <<91>> \o x \o <<44>> \o y \o <<93>> : x \in Small, y \in {<<49>>, <<91, 93>>} }
        \cup { <<123>> \o Key \o <<58>> \o x \o <<125>> : x \in Small }
        \cup { <<123>> \o Key \o <<58>> \o <<49>> \o <<44>> \o q \o q \o <<58>> \o x \o <<125>> : x \in {<<110, 117, 108, 108>>, <<91, 93>>} }
Spaced == { <<32>> \o <<91>> \o <<10>> \o <<49>> \o <<32>> \o <<44>> \o <<9>> \o <<50>> \o <<13>> \o <<93>> \o <<32>>,
            <<123>> \o <<32>> \o Key \o <<32>> \o <<58>> \o <<32>> \o <<91, 49, 93>> \o <<32>> \o <<125>>,
            <<91, 91, 91, 93, 93, 44, 123>> \o Key \o <<58>> \o <<123, 125, 125, 93>> }
Docs == Atoms \cup Lvl1 \cup Spaced

Del(d, p) == SubSeq(d, 1, p - 1) \o SubSeq(d, p + 1, Len(d))
Ins(d, p, c) == SubSeq(d, 1, p - 1) \o <<c>> \o SubSeq(d, p, Len(d))
Repl(d, p, c) == [d EXCEPT ![p] = c]
\* the edits draw from a wider alphabet than the short strings: EVERY control character (so that a grammar that
\* widens its whitespace or narrows its control range by one character is seen), DEL, C1 controls, NBSP, the line
\* and paragraph separators, BOM, a 4-byte character and the last scalar value
ESigma == Sigma \cup (0..31) \cup {127, 128, 133, 160, 8232, 8233, 65279, 65533, 128512, 1114111, 98, 102, 110, 114, 70, 57, 120}
          \* digits and letters that are such only to Unicode (Arabic-Indic three, superscript two, one half, full-width zero,
          \* Kelvin sign, long s), and characters whose low byte is a control character, a quote or a backslash
          \cup {1635, 178, 189, 65296, 8490, 383, 256, 19968, 290, 348}
Edits(d) == { Del(d, p) : p \in 1..Len(d) }
            \cup { Ins(d, p, c) : p \in 1..(Len(d) + 1), c \in ESigma }
            \cup { Repl(d, p, c) : p \in 1..Len(d), c \in ESigma }

RECURSIVE H(_)
H(t) == IF t = <<>> THEN 7 ELSE (31 * H(Tail(t)) + t[1]) % 1009

Strings == IF Family = "short" THEN Strs(ShortLen)
           ELSE Docs \cup UNION { Edits(d) : d \in Docs }

Init == s \in { t \in Strings : H(t) % NShards = Shard }
Next == UNCHANGED s
Spec == Init /\ [][Next]_s

Rfc == JsonText(s)
Peg == Parse(G, s, <<>>, FALSE, FALSE, 200, "json")
\* T11: the documented semantics of json.pest is RFC 8259, tree included
Denotes ==
  IF Rfc.ok THEN Peg.k = "ok" /\ Peg.q = Rfc.t
  ELSE Peg.k = "fail"
\* reported, not stopped at, so that every string of the shard is still printed for the replay
GrammarDenotesRfc == Denotes \/ PrintT(<<"REJECTED", "t11", 0, ToJson([inp |-> s, rfc_accepts |-> Rfc.ok, grammar_says |-> Peg.k])>>)
Emit == PrintT(ToJson([inp |-> s, ok |-> Rfc.ok, toks |-> ByteToks(s, Rfc.t)]))
===============================================================================
