SPECIFICATION Spec
CONSTANTS
  MaxLen = 3
  Shard = 0
  NShards = 1
INVARIANT Emit
CHECK_DEADLOCK FALSE
