----------------------------- MODULE MC_LineColGen -----------------------------
(***************************************************************************)
(* C10 spec -> impl: every text up to MaxLen over Sigma, and a family of   *)
(* texts with many lines (so that line numbers get 2 and 3 digits), with   *)
(* the expected line, column, line text at every position and the expected *)
(* lines of every ordered position pair.                                   *)
(***************************************************************************)
EXTENDS LineCol, TLC, Json
CONSTANTS MaxLen, Shard, NShards
VARIABLES s

Sigma == {97, 233, 10, 13, 9}
RECURSIVE Strs(_)
Strs(n) == IF n = 0 THEN {<<>>} ELSE {<<>>} \cup { <<c>> \o t : c \in Sigma, t \in Strs(n - 1) }

Rep(c, n) == [i \in 1..n |-> c]
Tails == { <<>>, <<97>>, <<97, 10>>, <<13, 10, 97, 233>>, <<9, 97, 10, 10>> }
Long  == { Rep(10, k) \o t : k \in {8, 9, 10, 11, 99, 100, 101}, t \in Tails }
         \cup { <<97, 10>> \o Rep(10, 8) \o <<233, 233, 13, 10, 97>> }

RECURSIVE H(_)
H(t) == IF t = <<>> THEN 7 ELSE (31 * H(Tail(t)) + t[1]) % 1009

Texts == { t \in Strs(MaxLen) \cup Long : H(t) % NShards = Shard }

PosRec(t, p) == [p |-> p, off |-> ByteOff(t, p), line |-> Line(t, p), col |-> Col(t, p),
                 text |-> LineAt(t, p), ls |-> ByteOff(t, LineStart(t, p)), le |-> ByteOff(t, LineEnd(t, p))]
\* pairs of positions: all for short texts, a few for the long family
Pairs(t) == IF Len(t) <= MaxLen
            THEN { <<p, q>> \in (1..(Len(t) + 1)) \X (1..(Len(t) + 1)) : p <= q }
            ELSE { pq \in { <<1, Len(t) + 1>>, <<Len(t) - 1, Len(t) + 1>>, <<Len(t) - 2, Len(t)>>, <<9, 12>>, <<10, 11>>,
                             <<9, 9>>, <<10, 10>>, <<Len(t), Len(t)>> } :
                     pq[1] >= 1 /\ pq[2] <= Len(t) + 1 /\ pq[1] <= pq[2] }
SpanRec(t, pq) == [a |-> ByteOff(t, pq[1]), b |-> ByteOff(t, pq[2]),
                   lines |-> LET L == LinesFrom(t, pq[1], pq[2]) IN
                             [i \in 1..Len(L) |-> <<ByteOff(t, L[i][1]), ByteOff(t, L[i][2])>>]]
Positions(t) == IF Len(t) <= MaxLen THEN 1..(Len(t) + 1)
                ELSE {1, 2, 9, 10, 11, 12, Len(t) - 2, Len(t) - 1, Len(t), Len(t) + 1} \cap (1..(Len(t) + 1))

Init == s \in Texts
Next == UNCHANGED s
Spec == Init /\ [][Next]_s
Emit == PrintT(ToJson([s |-> s, boundaries |-> Boundaries(s),
                       pos |-> { PosRec(s, p) : p \in Positions(s) },
                       spans |-> { SpanRec(s, pq) : pq \in Pairs(s) }]))
===============================================================================
