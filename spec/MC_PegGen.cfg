SPECIFICATION Spec
CONSTANTS
  Slice = "core"
  Shard = 0
  NShards = 1
INVARIANT Emit
CHECK_DEADLOCK FALSE
