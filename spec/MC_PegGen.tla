------------------------------ MODULE MC_PegGen ------------------------------
(***************************************************************************)
(* Behaviour generation for C01/C05/C12/C15 (spec -> impl).                *)
(* TLC enumerates every grammar of a slice of the grammar space:           *)
(*     m  = <modifier> { E }      E: every expression tree up to MaxSize   *)
(*     r1 = <modifier> { body }   auxiliary rule from a pool               *)
(*     WHITESPACE / COMMENT       absent or one of several definitions     *)
(* and, for every start rule and EVERY input over Sigma up to MaxLen,      *)
(* evaluates the documented semantics (PegSemantics, EvalDoc) and prints   *)
(* the expected outcome.  The harness prints each grammar in pest syntax,  *)
(* sends it through the real front-end and VM and compares.                *)
(* The slice is selected by the constant Slice; each initial state is one  *)
(* grammar; the invariant does the printing.                               *)
(***************************************************************************)
EXTENDS PegSemantics, TLC, Json, FiniteSets
CONSTANTS Slice, Shard, NShards, SizeOverride, LenOverride   \* overrides: 0 = the slice's own value
VARIABLES g

S(str) == [t |-> "str", s |-> str]
Id(n) == [t |-> "id", n |-> n]
Un(op, a) == [t |-> op, a |-> a]
Bin(op, a, b) == [t |-> op, a |-> a, b |-> b]

a == <<97>>  b == <<98>>  sp == <<32>>  hash == <<35>>  eacute == <<233>>
ab == <<97, 98>>  ac == <<97, 99>>  cc == <<99>>  ea == <<233, 97>>  qq == <<113>>

\* ---- slices ------------------------------------------------------------------------
\* A slice named x<name> is the slice <name> read with the grammar-extras feature on (native one-or-more,
\* PUSH_LITERAL, node tags); "xtag" exists only there.
XOf == [xcore |-> "core", xws |-> "ws", xcounted |-> "counted", xpushws |-> "pushws", xrestore |-> "restore",
        xfactor |-> "factor", xstack |-> "stack", xtag |-> "xtag"]
Extras == Slice \in DOMAIN XOf
BaseSlice == IF Extras THEN XOf[Slice] ELSE Slice
Cfg ==
  CASE BaseSlice = "skip" ->
        [leaves |-> {}, unary |-> {}, binary |-> {}, size |-> 3,     \* size = max number of alternatives
         tyM    |-> {"@", "", "$"},
         aux    |-> { [ty |-> "", e |-> Bin("alt", S(b), S(cc))], [ty |-> "_", e |-> S(b)] },
         ws     |-> {"none"},  cm |-> {"none", "_"},       \* a COMMENT without WHITESPACE: skipped implicitly all the same
         sigma  |-> {97, 98, 99, 233, 224, 35},  len |-> 4]
    [] BaseSlice = "factor" ->
        [leaves |-> {}, unary |-> {}, binary |-> {}, size |-> 1,
         tyM    |-> {"", "_", "@", "$", "!"},
         aux    |-> { [ty |-> "", e |-> S(a)], [ty |-> "_", e |-> Bin("seq", S(a), S(b))] },
         ws     |-> {"none", "_"},  cm |-> {"none"},
         sigma  |-> {97, 98, 32},  len |-> 5]
    [] BaseSlice = "restore" ->
        [leaves |-> {}, unary |-> {}, binary |-> {}, size |-> 1,
         tyM    |-> {"", "@"},
         aux    |-> { [ty |-> "", e |-> Bin("seq", Id("POP"), S(qq))], [ty |-> "_", e |-> Bin("seq", Un("push", S(b)), S(qq))] },
         ws     |-> {"none"},  cm |-> {"none"},
         sigma  |-> {97, 98, 113},  len |-> 5]
    [] BaseSlice = "shadow" ->   \* user rules named like non-keyword built-ins (see GOf)
        [leaves |-> {Id("ASCII_DIGIT"), Id("NEWLINE"), Id("ASCII_ALPHA"), Id("LETTER"), S(a), Id("r1")},
         unary  |-> {"opt", "rep", "not"},
         binary |-> {"seq", "alt"},
         size   |-> 3,
         tyM    |-> {""},
         aux    |-> { [ty |-> "", e |-> Id("ASCII_DIGIT")] },
         ws     |-> {"none"},  cm |-> {"none"},
         sigma  |-> {97, 49, 113, 10},  len |-> 3]
    [] BaseSlice = "pushws" ->   \* PUSH of composite expressions where implicit whitespace applies
        [leaves |-> {}, unary |-> {}, binary |-> {}, size |-> 1,
         tyM    |-> {"", "@", "!"},
         aux    |-> { [ty |-> "@", e |-> Un("rep1", S(a))] },
         ws     |-> {"_", ""},  cm |-> {"none"},
         sigma  |-> {97, 98, 32},  len |-> 5]
    [] BaseSlice = "xtag" ->    \* grammar-extras only: tags, PUSH_LITERAL and the native one-or-more in every position
        [leaves |-> {S(a), Id("r1"), [t |-> "pushlit", s |-> b], Id("POP"), Id("PEEK")},
         unary  |-> {"opt", "rep", "rep1", "not", "tagt", "push"},
         binary |-> {"seq", "alt"},
         size   |-> 3,
         tyM    |-> {"", "@"},
         aux    |-> { [ty |-> "", e |-> Bin("alt", S(b), S(a))] },
         ws     |-> {"none", "_"},  cm |-> {"none"},
         sigma  |-> {97, 98, 32},  len |-> 3]
    [] BaseSlice = "wsov" ->    \* WHITESPACE and COMMENT that can start on the same character: the ORDER of the implicit
                                \* skip (WHITESPACE* ~ (COMMENT ~ WHITESPACE*)*) becomes observable
        [leaves |-> {S(a), S(b), Id("r1")},
         unary  |-> {"opt", "rep", "rep1"},
         binary |-> {"seq", "alt"},
         size   |-> 3,
         tyM    |-> {"", "$"},
         aux    |-> { [ty |-> "", e |-> Bin("seq", S(a), S(b))] },
         ws     |-> {"", "_"},  cm |-> {"", "_"},
         sigma  |-> {97, 98, 32, 35},  len |-> 4]
    [] BaseSlice = "core" ->
        [leaves |-> {S(a), S(b), Id("ANY"), Id("EOI"), Id("r1"), S(<<>>)},
         unary  |-> {"opt", "rep", "rep1", "not", "and"},
         binary |-> {"seq", "alt"},
         size   |-> 3,
         tyM    |-> {"", "@"},
         aux    |-> { [ty |-> "", e |-> Bin("seq", S(a), Un("opt", S(b)))] },
         ws     |-> {"none"},  cm |-> {"none"},
         sigma  |-> {97, 98, 233},  len |-> 3]
    [] BaseSlice = "ws" ->
        [leaves |-> {S(a), S(b), Id("r1"), Id("EOI")},
         unary  |-> {"opt", "rep", "rep1", "not"},
         binary |-> {"seq", "alt"},
         size   |-> 3,
         tyM    |-> {"", "_", "@", "$", "!"},
         aux    |-> { [ty |-> t, e |-> Bin("seq", S(a), S(b))] : t \in {"", "@", "$", "!"} },
         ws     |-> {"", "_", "@", "$", "!"},  cm |-> {"none", "_", "!", "$"},
         sigma  |-> {97, 98, 32, 35},  len |-> 3]
    [] BaseSlice = "wsmod" ->   \* every modifier of WHITESPACE and of COMMENT x every kind of body, on two fixed main rules: small
                                \* enough to be run in full on BOTH back-ends (the large `ws` slice can only be sampled there)
        [leaves |-> {}, unary |-> {}, binary |-> {}, size |-> 1,
         tyM    |-> {"", "@"},
         aux    |-> { [ty |-> "", e |-> Bin("seq", S(a), S(b))] },
         ws     |-> {"", "_", "@", "$", "!"},  cm |-> {"none", "$", "!", ""},
         sigma  |-> {97, 98, 32, 35},  len |-> 4]
    [] BaseSlice = "wspred" ->  \* sequences that BEGIN with a predicate: the implicit skip behind it is the first thing that moves
        [leaves |-> {}, unary |-> {}, binary |-> {}, size |-> 1,
         tyM    |-> {"", "!", "@"},
         aux    |-> { [ty |-> "", e |-> Bin("seq", S(a), S(b))] },
         ws     |-> {"_", ""},  cm |-> {"none", "_"},
         sigma  |-> {97, 98, 32, 35},  len |-> 4]
    [] BaseSlice = "wsref" ->   \* WHITESPACE / COMMENT referred to BY NAME from rules of every modifier (besides being skipped
                                \* implicitly): what they emit and how their failures are tracked depends on the mode of the caller
        [leaves |-> {S(a), Id("WHITESPACE"), Id("COMMENT")},
         unary  |-> {"opt", "rep", "not"},
         binary |-> {"seq", "alt"},
         size   |-> 3,
         tyM    |-> {"", "@", "$", "!"},
         aux    |-> { [ty |-> "", e |-> S(b)] },
         ws     |-> {"", "_", "@", "$", "!"},  cm |-> {"", "$"},
         sigma  |-> {97, 32, 35},  len |-> 3]
    [] BaseSlice = "stack" ->
        [leaves |-> {S(a), Id("POP"), Id("PEEK"), Id("DROP"), Id("PEEK_ALL"), Id("POP_ALL"),
                     Un("push", S(a)), Un("push", Id("ANY")),
                     [t |-> "peek", lo |-> 0, hi |-> 1, open |-> FALSE],
                     [t |-> "peek", lo |-> -1, hi |-> 0, open |-> TRUE],
                     [t |-> "peek", lo |-> 1, hi |-> -1, open |-> FALSE],     \* empty or inverted, depending on the depth
                     [t |-> "peek", lo |-> 2, hi |-> 1, open |-> FALSE]},
         unary  |-> {"opt", "rep", "not", "push"},
         binary |-> {"seq", "alt"},
         size   |-> 3,
         tyM    |-> {""},
         aux    |-> { [ty |-> "", e |-> S(a)] },
         ws     |-> {"none"},  cm |-> {"none"},
         sigma  |-> {97, 98},  len |-> 4]
    [] BaseSlice = "counted" ->
        [leaves |-> {S(a), S(b), Id("r1")},
         unary  |-> {"exact2", "min1", "max2", "minmax12", "minmax11", "minmax22", "rep1", "opt"},
         binary |-> {"seq", "alt"},
         size   |-> 3,
         tyM    |-> {"", "@"},
         aux    |-> { [ty |-> "", e |-> S(a)] },
         ws     |-> {"none", "_"},  cm |-> {"none"},
         sigma  |-> {97, 98, 32},  len |-> 4]
    [] BaseSlice = "builtin" ->
        [leaves |-> {Id("ANY"), Id("SOI"), Id("EOI"), Id("ASCII_DIGIT"), Id("ASCII_ALPHA"), Id("NEWLINE"),
                     Id("ASCII_HEX_DIGIT"), [t |-> "ins", s |-> <<97, 66>>], [t |-> "range", lo |-> 97, hi |-> 233],
                     S(eacute)},
         unary  |-> {"opt", "rep", "not"},
         binary |-> {"seq", "alt"},
         size   |-> 3,
         tyM    |-> {"", "$"},
         aux    |-> { [ty |-> "", e |-> S(a)] },
         ws     |-> {"none"},  cm |-> {"none"},
         sigma  |-> {97, 65, 98, 49, 10, 13, 233},  len |-> 3]

\* ---- template slices: the shapes the optimizer passes rewrite --------------------------
AltList(xs) == LET RECURSIVE F(_)
                   F(i) == IF i = Len(xs) THEN xs[i] ELSE Bin("alt", xs[i], F(i + 1))
               IN F(1)
SkipPool == {S(a), S(ab), S(ac), S(b), S(<<>>), S(eacute), S(ea), S(<<252>>), S(hash), Id("r1")}
\* tail.t = "none": the loop alone; "plus": the one-or-more form of the loop; "star": the one-or-more form inside an outer
\* repetition (terminates only because the inner loop must consume); otherwise the loop followed by tail
SkipShape(xs, tail) ==
  LET body == Bin("seq", Un("not", AltList(xs)), Id("ANY"))
      core == Un("rep", body)
  IN CASE tail.t = "none" -> core
       [] tail.t = "plus" -> Un("rep1", body)
       [] tail.t = "star" -> Un("rep", Un("rep1", body))
       [] tail.t = "pre"  -> Bin("seq", S(b), core)               \* the scan does not start at offset 0
       [] OTHER -> Bin("seq", core, tail)
SkipPool3 == {S(a), S(ac), S(<<>>), Id("r1")}
\* n = 1, 2: up to n alternatives from the full pool; n = 3: plus three alternatives from the
\* reduced pool; n >= 4: three alternatives from the full pool
SkipExprs(n) ==
  LET Of(k, pool) == { SkipShape(xs, tl) : xs \in [1..k -> pool], tl \in {[t |-> "none"], S(a), [t |-> "plus"], [t |-> "star"], [t |-> "pre"]} }
  IN CASE n <= 2 -> UNION { Of(k, SkipPool) : k \in 1..n }
       [] n = 3  -> Of(1, SkipPool) \cup Of(2, SkipPool) \cup Of(3, SkipPool3)
       [] OTHER  -> UNION { Of(k, SkipPool) : k \in 1..3 }

FX == {S(a), S(b), Id("r1")}
FactorExprs ==
  UNION { { Bin("alt", Bin("seq", x, y), x),
            Bin("alt", x, Bin("seq", x, y)),
            Bin("alt", Bin("seq", x, y), Bin("seq", x, z)),
            Bin("alt", Bin("seq", x, z), Bin("seq", y, z)),            \* a common TAIL must not be factored (ordered choice commits)
            Bin("seq", Un("rep", Bin("seq", x, y)), x),
            Bin("seq", Bin("seq", x, y), z),
            Bin("alt", Bin("alt", x, y), z),
            Bin("seq", Un("opt", Bin("seq", x, y)), z),
            Bin("seq", Bin("alt", Bin("seq", x, y), x), z) } : x \in FX, y \in FX, z \in FX }

\* stack effects of failing alternatives: pre pushes, W(F) absorbs a failure of a stack-changing F,
\* post observes the stack
RestoreExprs ==
  LET Pre  == { Bin("seq", Un("push", S(a)), Un("push", S(b))), Un("push", Id("ANY")) }
              \* with grammar-extras also a stack filled by PUSH_LITERAL alone (no PUSH anywhere in the grammar)
              \cup (IF Extras THEN { Bin("seq", [t |-> "pushlit", s |-> a], [t |-> "pushlit", s |-> b]) } ELSE {})
      F    == { Id("POP_ALL"), Id("POP"), Bin("seq", Id("DROP"), S(qq)), Bin("seq", Un("push", S(a)), S(qq)),
                Bin("seq", Id("POP"), S(qq)), Bin("seq", Id("POP_ALL"), S(qq)), Id("r1"),
                Bin("seq", Id("PEEK"), Bin("seq", Id("DROP"), S(qq))),
                Id("PEEK_ALL"), [t |-> "peek", lo |-> 0, hi |-> 2, open |-> FALSE] }
      W(f) == { Un("opt", f), Bin("alt", f, S(b)), Un("rep", f), Bin("alt", f, Id("POP")),
                Un("opt", Bin("alt", S(qq), f)) }
              \cup (IF Extras     \* the absorbing operators under the constructs that exist only with grammar-extras
                    THEN { Un("rep1", Bin("alt", f, S(b))), [t |-> "tag", a |-> Bin("alt", f, S(b)), tag |-> "t"],
                           [t |-> "tag", a |-> Un("opt", f), tag |-> "t"], Bin("seq", Un("rep1", Bin("alt", f, S(b))), S(b)) }
                    ELSE {})
      Post == { Id("PEEK_ALL"), Bin("seq", Id("POP"), Id("POP")), [t |-> "peek", lo |-> 0, hi |-> 1, open |-> FALSE],
                Bin("seq", Id("DROP"), Id("DROP")), Id("POP_ALL"),
                Bin("seq", Un("rep", Id("DROP")), Un("not", Id("DROP"))) }      \* DROP* empties the stack, whatever its depth
      \* the same inside a look-ahead: the predicate's verdict depends on the stack the absorbed failure left
      LPost == { Id("PEEK"), Id("PEEK_ALL"), Bin("seq", Id("POP"), Id("POP")) }
  IN UNION { { Bin("seq", pre, Bin("seq", w, post)) : pre \in Pre, w \in W(f), post \in Post } : f \in F }
     \cup UNION { { Bin("seq", pre, Bin("seq", Un(p, Bin("seq", w, post)), Un("rep", Id("ANY")))) :
                     pre \in Pre, w \in W(f), post \in LPost, p \in {"and", "not"} } : f \in F }

PushWsExprs ==
  LET X == { Bin("seq", S(a), S(a)), Bin("seq", Id("r1"), Id("r1")), Un("rep", S(a)), Un("rep1", S(a)),
             Bin("seq", S(a), Un("opt", S(b))), [t |-> "exact", a |-> S(a), n |-> 2] }
  IN { Bin("seq", Un("push", x), Bin("seq", S(b), Id("POP"))) : x \in X }
     \cup { Bin("seq", Un("push", x), Id("PEEK")) : x \in X }
     \cup { Un("rep", Bin("seq", Un("push", x), S(b))) : x \in X }

\* ---- expression enumeration ----------------------------------------------------------
MkUn(op, x) ==
  CASE op = "exact2"   -> [t |-> "exact", a |-> x, n |-> 2]
    [] op = "min1"     -> [t |-> "min", a |-> x, n |-> 1]
    [] op = "max2"     -> [t |-> "max", a |-> x, n |-> 2]
    [] op = "minmax12" -> [t |-> "minmax", a |-> x, m |-> 1, n |-> 2]
    [] op = "minmax11" -> [t |-> "minmax", a |-> x, m |-> 1, n |-> 1]
    [] op = "minmax22" -> [t |-> "minmax", a |-> x, m |-> 2, n |-> 2]
    [] op = "tagt"     -> [t |-> "tag", a |-> x, tag |-> "t"]
    [] OTHER           -> Un(op, x)

RECURSIVE ExprsOfSize(_)
ExprsOfSize(n) ==
  IF n = 1 THEN Cfg.leaves
  ELSE { MkUn(op, x) : op \in Cfg.unary, x \in ExprsOfSize(n - 1) }
       \cup UNION { { Bin(op, x, y) : op \in Cfg.binary, x \in ExprsOfSize(i), y \in ExprsOfSize(n - 1 - i) }
                    : i \in 1..(n - 2) }

MaxSize == IF SizeOverride > 0 THEN SizeOverride ELSE Cfg.size
MaxLen == IF LenOverride > 0 THEN LenOverride ELSE Cfg.len
Exprs == CASE Slice = "skip"   -> SkipExprs(MaxSize)
           [] BaseSlice = "factor" -> FactorExprs
           [] BaseSlice = "restore" -> RestoreExprs
           [] BaseSlice = "pushws" -> PushWsExprs
           [] BaseSlice = "wsmod" -> { Bin("seq", S(a), S(b)), Un("rep", Id("r1")) }
           [] BaseSlice = "wspred" -> { Bin("seq", Un("not", S(b)), S(a)), Bin("seq", Un("and", S(a)), S(a)),
                                        Bin("seq", Un("not", S(b)), Bin("seq", S(a), S(a))), Un("rep", Bin("seq", Un("not", S(b)), S(a))),
                                        Bin("seq", Un("not", Id("r1")), Id("r1")), Bin("seq", Un("not", Un("not", S(a))), S(a)),
                                        \* a predicate-led sequence with TWO further elements, the last of which can fail after the first has
                                        \* matched, directly under * / ? / | (the checkpoint of the sequence is what undoes the first)
                                        \* (the middle element is a rule call: two literals in a row would be merged into one by the optimizer)
                                        Bin("seq", Un("rep", Bin("seq", Un("not", S(b)), Bin("seq", Id("r1"), S(b)))), S(a)),
                                        Bin("seq", Un("opt", Bin("seq", Un("not", S(b)), Bin("seq", Id("r1"), S(b)))), S(a)),
                                        Bin("alt", Bin("seq", Un("not", S(b)), Bin("seq", Id("r1"), S(b))), S(a)),
                                        Bin("seq", Un("rep", Bin("seq", Un("and", S(a)), Bin("seq", Id("r1"), S(a)))), Un("rep", S(a))) }
           [] OTHER -> UNION { ExprsOfSize(n) : n \in 1..MaxSize }

\* WHITESPACE / COMMENT bodies: a literal, or (wb = "rule") a call of a non-silent helper rule, which
\* makes the difference between @ and $ skip rules observable
\* wb = "ov": COMMENT = " #" | "##" and WHITESPACE = " " | "#" overlap on their first characters
\* wb = "seq": bodies that are sequences / repetitions starting with something that can match empty - the places
\* where an implementation that did NOT make the body atomic would skip implicitly inside the skip rule itself
\* wb = "ruleseq": as "rule", but the helper rules are themselves sequences / repetitions with a head that can match
\* empty: a skip rule's helpers run atomically too, so nothing is skipped inside them
WsRule(ty, wb) == [ty |-> ty, e |-> CASE wb \in {"rule", "ruleseq"} -> Id("w1") [] wb = "ov" -> Bin("alt", S(sp), S(hash))
                                      [] wb = "seq" -> Bin("seq", Un("opt", S(hash)), S(sp)) [] OTHER -> S(sp)]
CmRule(ty, wb) == [ty |-> ty, e |-> CASE wb \in {"rule", "ruleseq"} -> Bin("seq", S(hash), Un("opt", Id("w2")))
                                      [] wb = "ov" -> Bin("alt", S(<<32, 35>>), S(<<35, 35>>))
                                      [] wb = "seq" -> Bin("seq", Un("rep", S(a)), S(hash))
                                      [] OTHER -> S(hash)]
WBodies == CASE BaseSlice \in {"ws", "wsmod"} -> {"lit", "rule", "seq", "ruleseq"} [] BaseSlice = "wsov" -> {"ov"} [] BaseSlice = "wsref" -> {"lit", "rule"} [] OTHER -> {"lit"}

Grammars ==
  { [m |-> [ty |-> tm, e |-> e], r1 |-> aux, ws |-> w, cm |-> c, wb |-> wb] :
      tm \in Cfg.tyM, e \in Exprs, aux \in Cfg.aux, w \in Cfg.ws, c \in Cfg.cm, wb \in WBodies }

\* the grammar as the record PegSemantics expects
Shadows == [ASCII_DIGIT |-> [ty |-> "", e |-> S(<<113>>)],          \* ASCII_DIGIT = { "q" }
            NEWLINE     |-> [ty |-> "_", e |-> S(<<113>>)],
            ASCII_ALPHA |-> [ty |-> "@", e |-> S(<<49>>)],
            LETTER      |-> [ty |-> "", e |-> S(<<49>>)]]
GOf(x) ==
  LET base == IF BaseSlice = "shadow" THEN [m |-> x.m, r1 |-> x.r1] @@ Shadows ELSE [m |-> x.m, r1 |-> x.r1]
      h    == CASE x.wb = "rule" -> base @@ [w1 |-> [ty |-> "", e |-> S(sp)], w2 |-> [ty |-> "", e |-> S(a)]]
                [] x.wb = "ruleseq" -> base @@ [w1 |-> [ty |-> "", e |-> Bin("seq", Un("opt", S(hash)), S(sp))],
                                                w2 |-> [ty |-> "", e |-> Bin("seq", Un("rep", S(a)), S(b))]]
                [] OTHER -> base
      w    == IF x.ws = "none" THEN h ELSE h @@ [WHITESPACE |-> WsRule(x.ws, x.wb)]
  IN IF x.cm = "none" THEN w ELSE w @@ [COMMENT |-> CmRule(x.cm, x.wb)]

RECURSIVE Strings(_)
Strings(n) == IF n = 0 THEN {<<>>} ELSE {<<>>} \cup { <<c>> \o s : c \in Cfg.sigma, s \in Strings(n - 1) }
Inputs == Strings(MaxLen)

Fuel == 40
CaseOf(G, start, inp) ==
  [start |-> start, inp |-> inp,
   exp |-> Outcome(inp, Parse(G, inp, <<>>, Extras, FALSE, Fuel, start))]

\* a cheap deterministic shard key
TCode == [str |-> 1, ins |-> 2, range |-> 3, id |-> 4, peek |-> 5, seq |-> 6, alt |-> 7, opt |-> 8, rep |-> 9,
          rep1 |-> 10, not |-> 11, and |-> 12, push |-> 13, exact |-> 14, min |-> 15, max |-> 16, minmax |-> 17,
          tag |-> 18, pushlit |-> 19]
RECURSIVE Hash(_)
Hash(e) == CASE e.t \in {"str", "ins", "pushlit"} -> (3 + 5 * Len(e.s) + (IF e.s = <<>> THEN 0 ELSE e.s[1])) % 1009
             [] e.t = "id" -> (7 + 13 * Len(e.n)) % 1009
             [] e.t \in {"seq", "alt"} -> (17 * Hash(e.a) + 29 * Hash(e.b) + TCode[e.t]) % 1009
             [] e.t \in {"range", "peek"} -> 5 + TCode[e.t]
             [] OTHER -> (31 * Hash(e.a) + 3 * TCode[e.t] + (IF "n" \in DOMAIN e THEN e.n ELSE 0)) % 1009
Mine(x) == (Hash(x.m.e) % NShards) = Shard

Init == g \in { x \in Grammars : Mine(x) }
Next == UNCHANGED g
Spec == Init /\ [][Next]_g

Emit ==
  LET G == GOf(g) IN
  PrintT(ToJson([g |-> G,
                 cases |-> { CaseOf(G, st, inp) : st \in {"m"}, inp \in Inputs }]))
==============================================================================
