------------------------------- MODULE MC_Pratt -------------------------------
(***************************************************************************)
(* T10 and behaviour generation for C13.  TLC enumerates every operator    *)
(* table with K operators over Levels levels (each operator one of prefix, *)
(* postfix, infix-left, infix-right; mixed affixes and associativities     *)
(* inside one level included; tables equal up to renaming of operators     *)
(* enumerated once) and every well-formed token sequence up to MaxLen, and *)
(* checks on the model that the Pratt loop - and, on its sub-domain, the   *)
(* climbing loop - build exactly the ShuntingYard tree, which uses every   *)
(* token once in the original order.  Each (table, sequence, tree) is      *)
(* printed for replay on the real PrattParser / ConstPrattParser /         *)
(* PrecClimber.                                                            *)
(***************************************************************************)
EXTENDS Pratt, TLC, Json, FiniteSets
CONSTANTS K, Levels, MaxLen, Shard, NShards, Mode    \* Mode = "macro": only the table of the pratt_precedence! instance (K = 4)
                                                     \* Mode = "dup": K rules in K + 1 registrations (one rule registered twice)
VARIABLES c

Affixes == <<"pre", "post", "inl", "inr">>
Code(e) == 4 * (e.lvl - 1) + (CHOOSE a \in 1..4 : Affixes[a] = e.affix)
Entries == [affix : {"pre", "post", "inl", "inr"}, lvl : 1..Levels]
\* tables up to renaming: operator ids in non-decreasing (level, affix) order
MacroTable == <<[affix |-> "pre", lvl |-> 1], [affix |-> "inl", lvl |-> 1], [affix |-> "inr", lvl |-> 2], [affix |-> "post", lvl |-> 3]>>
Tables == IF Mode = "macro" THEN {MacroTable}
          ELSE { T \in [1..K -> Entries] : \A i \in 1..(K - 1) : Code(T[i]) <= Code(T[i + 1]) }

RECURSIVE Seqs(_)
Seqs(n) == IF n = 0 THEN {<<>>} ELSE {<<>>} \cup { <<x>> \o s : x \in 0..K, s \in Seqs(n - 1) }

RECURSIVE TH(_)
TH(s) == IF s = <<>> THEN 3 ELSE (7 * TH(Tail(s)) + s[1]) % 101
\* registration sequences in which one rule appears twice (levels in non-decreasing order, as op() calls come)
DupEntries == [rule : 1..K, affix : {"pre", "post", "inl", "inr"}, lvl : 1..Levels]
\* (operators with a parameter: TLC evaluates parameterless constant definitions at start-up, whatever the Mode)
Regs(k) == { R \in [1..(k + 1) -> DupEntries] : /\ \A i \in 1..K : R[i].lvl <= R[i + 1].lvl
                                             /\ \A r \in 1..K : \E i \in 1..(K + 1) : R[i].rule = r }
\* shards are cut on the registration sequence, so that each TLC process enumerates its own part of the product only
RECURSIVE RH(_, _)
RH(R, i) == IF i = 0 THEN 0 ELSE (5 * RH(R, i - 1) + Code([affix |-> R[i].affix, lvl |-> R[i].lvl]) + 3 * R[i].rule) % 1009
DupCases(k) == { <<Registered(x[1], k), x[2], x[1]>> :
                x \in { y \in { R \in Regs(k) : RH(R, k + 1) % NShards = Shard } \X Seqs(MaxLen) :
                          WellFormed(Registered(y[1], k), y[2]) } }
Cases == IF Mode = "dup" THEN DupCases(K)
         ELSE { cs \in Tables \X Seqs(MaxLen) :
                  WellFormed(cs[1], cs[2]) /\ (TH(cs[2]) + Code(cs[1][1])) % NShards = Shard }

Init == c \in Cases
Next == UNCHANGED c
Spec == Init /\ [][Next]_c

Tb == c[1]
toks == c[2]
PrattIsShuntingYard == PrattTree(Tb, toks) = ShuntingYard(Tb, toks)
UsesEachTokenOnceInOrder == OncePreservingOrder(ShuntingYard(Tb, toks), Len(toks))
ClimberIsShuntingYard == ClimberTable(Tb) => ClimbTree(Tb, toks) = ShuntingYard(Tb, toks)
Emit == IF Mode = "dup"
        THEN PrintT(ToJson([regs |-> c[3], table |-> Tb, toks |-> toks, tree |-> ShuntingYard(Tb, toks), climber |-> FALSE]))
        ELSE PrintT(ToJson([table |-> Tb, toks |-> toks, tree |-> ShuntingYard(Tb, toks), climber |-> ClimberTable(Tb)]))
===============================================================================
