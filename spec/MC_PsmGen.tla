------------------------------- MODULE MC_PsmGen -------------------------------
(***************************************************************************)
(* C03 spec -> impl.  TLC enumerates every program of ParserState calls up *)
(* to MaxSize over the operations of a slice and, for EVERY input over     *)
(* Sigma up to MaxLen, evaluates the contract machine and prints the       *)
(* expected observable outcome.  Along the way it checks on the model the  *)
(* contracts the property names: a failed sequence and any look-ahead      *)
(* leave position, tokens and stack as they were; a rule emits one         *)
(* balanced pair around what its body consumed iff it succeeds outside     *)
(* look-ahead and atomic mode; the matching primitives advance over        *)
(* exactly the matched text and do not move on failure.                    *)
(***************************************************************************)
EXTENDS ParserStateMachine, TLC, Json
CONSTANTS Slice, MaxSize, MaxLen, Shard, NShards
VARIABLES c

a == <<97>>  b == <<98>>  ab == <<97, 98>>  e == <<233>>  none == <<>>
P(o) == [op |-> o]
Str(s) == [op |-> "str", s |-> s]
Un(o, p) == [op |-> o, p |-> p]
Bin(o, x, y) == [op |-> o, a |-> x, b |-> y]

Cfg ==
  CASE Slice = "core" ->
        [leaves |-> {Str(a), Str(b), Str(none), Str(e), P("ok"), P("err"), [op |-> "skip", n |-> 1], P("eoi"), P("soi"),
                     [op |-> "range", lo |-> 97, hi |-> 98], [op |-> "ins", s |-> <<65>>], [op |-> "charby", set |-> "alpha"],
                     [op |-> "tag", t |-> "t"]},
         unary |-> {"seq", "opt", "rep", "lookp", "lookn", "atomA", "atomC", "rule1", "rule2"},
         sigma |-> {97, 98, 233}]
    [] Slice = "stack" ->
        [leaves |-> {Str(a), [op |-> "pushlit", s |-> a], [op |-> "pushlit", s |-> b], P("peek"), P("pop"), P("drop"), P("matchpeek"), P("matchpop"),
                     [op |-> "peekslice", lo |-> 0, hi |-> 1, open |-> FALSE, dir |-> "b2t"],
                     [op |-> "peekslice", lo |-> -2, hi |-> 0, open |-> TRUE, dir |-> "t2b"],
                     [op |-> "peekslice", lo |-> 1, hi |-> -1, open |-> FALSE, dir |-> "b2t"], P("err")},
         unary |-> {"seq", "opt", "rep", "lookp", "lookn", "push", "restore", "rule1"},
         sigma |-> {97, 98}]
    [] Slice = "prims" ->       \* the matching primitives over an alphabet with case twins, bit-5 twins that are NOT letters
                                \* ([ {, @ `), a two-byte letter with its upper case and a three-byte character whose
                                \* first bytes differ from it in bit 5 only
        [leaves |-> { [op |-> o, s |-> x] : o \in {"str", "ins"},
                        x \in {<<97>>, <<65>>, <<91>>, <<123>>, <<64>>, <<233>>, <<201>>, <<97, 233>>, <<91, 65>>, <<>>} }
                    \cup { [op |-> "range", lo |-> 65, hi |-> 91], [op |-> "range", lo |-> 233, hi |-> 14912],
                           [op |-> "range", lo |-> 98, hi |-> 97], [op |-> "range", lo |-> 123, hi |-> 64],     \* reversed: contain nothing
                           [op |-> "skip", n |-> 1], [op |-> "skip", n |-> 2], [op |-> "skip", n |-> 3],
                           [op |-> "charby", set |-> "alpha"], P("eoi") },
         unary |-> {"seq", "lookp", "lookn", "rep", "opt"},
         sigma |-> {97, 65, 91, 123, 64, 96, 233, 201, 14912, 2309}]
    [] Slice = "until" ->       \* skip_until with 0..3 needles: empty needle, shared first bytes, multi-byte first character
        [leaves |-> { [op |-> "until", ss |-> ss] : ss \in UNION { [1..n -> {a, b, ab, none, e, <<233, 97>>, <<97, 97>>}] : n \in 0..3 } }
                    \cup { [op |-> "until", ss |-> ss] : ss \in { <<e, <<252>>>>, <<<<252>>, e>>, <<e, <<252>>, <<223>>>>, <<<<252>>>> } }
                    \* a scan that does not start at offset 0 (three needles: the memchr3 arm)
                    \cup { Bin("then", [op |-> "skip", n |-> 1], [op |-> "until", ss |-> ss]) : ss \in [1..3 -> {a, b, ab}] }
                    \cup { Bin("then", Str(b), [op |-> "until", ss |-> ss]) : ss \in [1..2 -> {a, b, ab}] }
                    \cup {Str(a), P("eoi")},
         unary |-> {"seq", "rule1"},
         sigma |-> {97, 98, 233, 224}]

MkUn(o, p) ==
  CASE o = "lookp" -> [op |-> "look", pos |-> TRUE, p |-> p]
    [] o = "lookn" -> [op |-> "look", pos |-> FALSE, p |-> p]
    [] o = "atomA" -> [op |-> "atomic", m |-> "A", p |-> p]
    [] o = "atomC" -> [op |-> "atomic", m |-> "C", p |-> p]
    [] o = "rule1" -> [op |-> "rule", r |-> 1, p |-> p]
    [] o = "rule2" -> [op |-> "rule", r |-> 2, p |-> p]
    [] OTHER -> Un(o, p)

RECURSIVE ProgsOfSize(_)
ProgsOfSize(n) ==
  IF n = 1 THEN Cfg.leaves
  ELSE { MkUn(o, p) : o \in Cfg.unary, p \in ProgsOfSize(n - 1) }
       \cup UNION { { Bin(o, x, y) : o \in {"then", "else"}, x \in ProgsOfSize(i), y \in ProgsOfSize(n - 1 - i) } : i \in 1..(n - 2) }
Progs == UNION { ProgsOfSize(n) : n \in 1..MaxSize }

RECURSIVE Strs(_)
Strs(n) == IF n = 0 THEN {<<>>} ELSE {<<>>} \cup { <<x>> \o s : x \in Cfg.sigma, s \in Strs(n - 1) }
Inputs == Strs(MaxLen)

OCode == [ok |-> 1, err |-> 2, str |-> 3, ins |-> 4, range |-> 5, charby |-> 6, skip |-> 7, until |-> 8, soi |-> 9, eoi |-> 10,
          pushlit |-> 11, peek |-> 12, pop |-> 13, drop |-> 14, matchpeek |-> 15, matchpop |-> 16, peekslice |-> 17, tag |-> 18,
          then |-> 19, else |-> 20, opt |-> 21, rep |-> 22, seq |-> 23, look |-> 24, atomic |-> 25, push |-> 26, restore |-> 27, rule |-> 28]
RECURSIVE H(_)
H(p) == IF "a" \in DOMAIN p /\ "b" \in DOMAIN p THEN (17 * H(p.a) + 29 * H(p.b) + OCode[p.op]) % 1009
        ELSE IF "p" \in DOMAIN p THEN (31 * H(p.p) + 3 * OCode[p.op] + (IF "pos" \in DOMAIN p /\ p.pos THEN 1 ELSE 0)) % 1009
        ELSE (7 * OCode[p.op] + (IF "s" \in DOMAIN p THEN Len(p.s) ELSE 0)) % 1009

Init == c \in { p \in Progs : H(p) % NShards = Shard }
Next == UNCHANGED c
Spec == Init /\ [][Next]_c

Out(inp) == Run(inp, c, St0)

\* ---- the contracts, checked on the model for the enumerated program at the top level
Unchanged(r) == r.st.pos = St0.pos /\ r.st.q = St0.q /\ r.st.cur = St0.cur
SequenceAllOrNothing == c.op = "seq" => \A inp \in Inputs : Out(inp).k = "err" => Unchanged(Out(inp))
LookaheadNeutral == c.op = "look" => \A inp \in Inputs : Out(inp).k \in {"ok", "err"} => Unchanged(Out(inp))
RuleEmitsBalancedPair ==
  c.op = "rule" => \A inp \in Inputs :
     LET r == Out(inp) IN
     /\ r.k = "ok" => /\ Len(r.st.q) >= 2
                      /\ r.st.q[1] = [k |-> "S", p |-> 1, r |-> c.r, tag |-> ""]
                      /\ r.st.q[Len(r.st.q)].k = "E" /\ r.st.q[Len(r.st.q)].r = c.r /\ r.st.q[Len(r.st.q)].p = r.st.pos
     /\ r.k = "err" => r.st.q = <<>>
PrimitivesExact ==
  c.op \in {"str", "ins", "range", "charby", "skip", "soi", "eoi"} => \A inp \in Inputs :
     LET r == Out(inp) IN (r.k = "err" => r.st = St0) /\ (r.k = "ok" => r.st.pos >= 1 /\ r.st.pos <= Len(inp) + 1 /\ r.st.q = <<>>)
StateRestored == \A inp \in Inputs : Out(inp).k \in {"ok", "err"} => Out(inp).st.look = "n" /\ Out(inp).st.atom = "N" /\ Out(inp).st.saved = <<>>

Emit == PrintT(ToJson([prog |-> c, cases |-> { [inp |-> inp, exp |-> Observable(inp, Out(inp))] : inp \in Inputs }]))
===============================================================================
