------------------------------- MODULE MC_PsmNest -------------------------------
(***************************************************************************)
(* C03 spec -> impl, nested checkpoints.  MC_PsmGen enumerates every small *)
(* program; the programs that stress the all-or-nothing contract of        *)
(* sequence / lookahead / restore_on_err are deeper than it can reach:     *)
(* pushes and drops on both sides of several nested checkpoints, inner     *)
(* ones succeeding, outer ones failing.  Here the program is GROWN one     *)
(* symbol per TLC step - push a fresh literal, drop, open a checkpoint,    *)
(* close it in one of the Closers' ways - so TLC's reachable states are    *)
(* exactly the programs of up to MaxSyms symbols and MaxDepth open         *)
(* checkpoints; every complete one is evaluated by the contract machine,   *)
(* checked against the contracts on the model, and printed for replay on   *)
(* the real ParserState.                                                   *)
(* Prims selects the primitive symbols: "push" (a FRESH literal each time, *)
(* so a wrong restoration is always visible), "drop", and the matching     *)
(* family "pusha", "pushb", "stra", "strb", "peek", "pop", "matchpeek",    *)
(* "matchpop", "slice01", "sliceneg" (which need inputs: every string over *)
(* {a, b} up to InputLen is evaluated for every program).  Closers may     *)
(* also be atomic(A/C/N), rule(1/2), repeat and stack_push wrappers: the   *)
(* "tokens" family checks what is emitted, kept and truncated when rules   *)
(* sit under atomic modes, look-ahead and failing sequences.               *)
(***************************************************************************)
EXTENDS ParserStateMachine, TLC, Json
CONSTANTS MaxSyms, MaxDepth, Closers, Prims, InputLen, OpenCost
VARIABLES frames, n, pushes

vars == <<frames, n, pushes>>
Frame0 == [items |-> <<>>, dead |-> FALSE]
Err == [op |-> "err"]

RECURSIVE Chain(_)
Chain(items) == IF items = <<>> THEN [op |-> "ok"]
                ELSE IF Len(items) = 1 THEN items[1]
                ELSE [op |-> "then", a |-> items[1], b |-> Chain(Tail(items))]

\* how a checkpoint can be closed: the wrapped body, and whether the wrapped call is known to fail
Fails(c) == c \in {"seqfail", "restorefail"}
Wrap(c, items) ==
  CASE c = "seq"         -> [op |-> "seq", p |-> Chain(items)]
    [] c = "seqfail"     -> [op |-> "seq", p |-> Chain(Append(items, Err))]
    [] c = "restore"     -> [op |-> "restore", p |-> Chain(items)]
    [] c = "restorefail" -> [op |-> "restore", p |-> Chain(Append(items, Err))]
    [] c = "lookpos"     -> [op |-> "look", pos |-> TRUE, p |-> Chain(items)]
    [] c = "looknegfail" -> [op |-> "look", pos |-> FALSE, p |-> Chain(Append(items, Err))]
    [] c = "optfail"     -> [op |-> "opt", p |-> Chain(Append(items, Err))]
    [] c = "optseqfail"  -> [op |-> "opt", p |-> [op |-> "seq", p |-> Chain(Append(items, Err))]]
    [] c = "atomA"       -> [op |-> "atomic", m |-> "A", p |-> Chain(items)]
    [] c = "atomC"       -> [op |-> "atomic", m |-> "C", p |-> Chain(items)]
    [] c = "atomN"       -> [op |-> "atomic", m |-> "N", p |-> Chain(items)]
    [] c = "rule1"       -> [op |-> "rule", r |-> 1, p |-> Chain(items)]
    [] c = "rule2"       -> [op |-> "rule", r |-> 2, p |-> Chain(items)]
    [] c = "rep"         -> [op |-> "rep", p |-> Chain(items)]
    [] c = "stackpush"   -> [op |-> "push", p |-> Chain(items)]

Top == frames[Len(frames)]
AddItem(it, dead) ==
  frames' = [frames EXCEPT ![Len(frames)] = [items |-> Append(@.items, it), dead |-> @.dead \/ dead]]

PrimItem(x) ==
  CASE x = "drop"      -> [op |-> "drop"]
    [] x = "pusha"     -> [op |-> "pushlit", s |-> <<97>>]
    [] x = "pushb"     -> [op |-> "pushlit", s |-> <<98>>]
    [] x = "stra"      -> [op |-> "str", s |-> <<97>>]
    [] x = "strb"      -> [op |-> "str", s |-> <<98>>]
    [] x = "any"       -> [op |-> "skip", n |-> 1]
    [] x = "slice01"   -> [op |-> "peekslice", lo |-> 0, hi |-> 1, open |-> FALSE, dir |-> "b2t"]
    [] x = "sliceneg"  -> [op |-> "peekslice", lo |-> -2, hi |-> 0, open |-> TRUE, dir |-> "t2b"]
    [] OTHER           -> [op |-> x]        \* peek, pop, matchpeek, matchpop

Push == /\ "push" \in Prims /\ n < MaxSyms /\ ~Top.dead
        /\ AddItem([op |-> "pushlit", s |-> <<97 + pushes>>], FALSE)
        /\ pushes' = pushes + 1 /\ n' = n + 1
Prim(x) == /\ x # "push" /\ n < MaxSyms /\ ~Top.dead
           /\ AddItem(PrimItem(x), FALSE)
           /\ UNCHANGED pushes /\ n' = n + 1
\* OpenCost = 1: a checkpoint costs two symbols (open, close); OpenCost = 0: one (only the close counts), which
\* reaches deeper nestings with the same MaxSyms
Open == /\ n + Len(frames) - 1 + OpenCost < MaxSyms /\ ~Top.dead /\ Len(frames) <= MaxDepth
        /\ frames' = Append(frames, Frame0)
        /\ UNCHANGED pushes /\ n' = n + OpenCost
Close(c) ==
  /\ Len(frames) > 1 /\ n < MaxSyms
  /\ (Top.dead => ~Fails(c) /\ c \notin {"looknegfail", "optfail", "optseqfail"})   \* no second failure after a dead body
  /\ LET node == Wrap(c, Top.items)
         par == frames[Len(frames) - 1]
         dead == IF c \in {"looknegfail", "optfail", "optseqfail"} THEN FALSE ELSE (Top.dead \/ Fails(c)) IN
     frames' = Append(SubSeq(frames, 1, Len(frames) - 2), [items |-> Append(par.items, node), dead |-> par.dead \/ dead])
  /\ UNCHANGED pushes /\ n' = n + 1

Init == frames = <<Frame0>> /\ n = 0 /\ pushes = 0
Next == Push \/ (\E x \in Prims : Prim(x)) \/ Open \/ \E c \in Closers : Close(c)
Spec == Init /\ [][Next]_vars

RECURSIVE Strs(_)
Strs(k) == IF k = 0 THEN {<<>>} ELSE {<<>>} \cup { <<x>> \o t : x \in {97, 98}, t \in Strs(k - 1) }
Inputs == Strs(InputLen)

Complete == Len(frames) = 1 /\ n >= 1
Prog == Chain(frames[1].items)
Out(inp) == Run(inp, Prog, St0)

\* ---- contracts on the model.  The wrapped calls are checked where they stand: the last item of the
\* outermost chain, started from the state the items before it left.
Before(inp) == Run(inp, Chain(SubSeq(frames[1].items, 1, Len(frames[1].items) - 1)), St0)
LastItem == frames[1].items[Len(frames[1].items)]
LastOut(inp) == Run(inp, LastItem, Before(inp).st)
SameVisible(s, t) == s.pos = t.pos /\ s.q = t.q /\ s.cur = t.cur
NestedAllOrNothing ==
  (Complete /\ LastItem.op \in {"seq", "restore"}) =>
     \A inp \in Inputs : (Before(inp).k = "ok" /\ LastOut(inp).k = "err") => SameVisible(LastOut(inp).st, Before(inp).st)
NestedLookaheadNeutral ==
  (Complete /\ LastItem.op = "look") =>
     \A inp \in Inputs : (Before(inp).k = "ok" /\ LastOut(inp).k \in {"ok", "err"}) => SameVisible(LastOut(inp).st, Before(inp).st)
\* a matching primitive that fails does not move
PrimFailsInPlace ==
  (Complete /\ LastItem.op \in {"str", "peek", "matchpeek", "peekslice"}) =>
     \A inp \in Inputs : (Before(inp).k = "ok" /\ LastOut(inp).k = "err") => LastOut(inp).st = Before(inp).st
NoSnapshotLeft == Complete => \A inp \in Inputs : (Out(inp).k \in {"ok", "err"} => Out(inp).st.saved = <<>>)

Emit == Complete =>
          PrintT(ToJson([prog |-> Prog, cases |-> { [inp |-> inp, exp |-> Observable(inp, Out(inp))] : inp \in Inputs }]))
===============================================================================
