------------------------------- MODULE MC_PsmNest -------------------------------
(***************************************************************************)
(* C03 spec -> impl, nested checkpoints.  MC_PsmGen enumerates every small *)
(* program; the programs that stress the all-or-nothing contract of        *)
(* sequence / lookahead / restore_on_err are deeper than it can reach:     *)
(* pushes and drops on both sides of several nested checkpoints, inner     *)
(* ones succeeding, outer ones failing.  Here the program is GROWN one     *)
(* symbol per TLC step - push a fresh literal, drop, open a checkpoint,    *)
(* close it in one of the Closers' ways - so TLC's reachable states are    *)
(* exactly the programs of up to MaxSyms symbols and MaxDepth open         *)
(* checkpoints; every complete one is evaluated by the contract machine,   *)
(* checked against the contracts on the model, and printed for replay on   *)
(* the real ParserState.                                                   *)
(***************************************************************************)
EXTENDS ParserStateMachine, TLC, Json
CONSTANTS MaxSyms, MaxDepth, Closers
VARIABLES frames, n, pushes

vars == <<frames, n, pushes>>
Frame0 == [items |-> <<>>, dead |-> FALSE]
Err == [op |-> "err"]

RECURSIVE Chain(_)
Chain(items) == IF items = <<>> THEN [op |-> "ok"]
                ELSE IF Len(items) = 1 THEN items[1]
                ELSE [op |-> "then", a |-> items[1], b |-> Chain(Tail(items))]

\* how a checkpoint can be closed: the wrapped body, and whether the wrapped call is known to fail
Fails(c) == c \in {"seqfail", "restorefail"}
Wrap(c, items) ==
  CASE c = "seq"         -> [op |-> "seq", p |-> Chain(items)]
    [] c = "seqfail"     -> [op |-> "seq", p |-> Chain(Append(items, Err))]
    [] c = "restore"     -> [op |-> "restore", p |-> Chain(items)]
    [] c = "restorefail" -> [op |-> "restore", p |-> Chain(Append(items, Err))]
    [] c = "lookpos"     -> [op |-> "look", pos |-> TRUE, p |-> Chain(items)]
    [] c = "looknegfail" -> [op |-> "look", pos |-> FALSE, p |-> Chain(Append(items, Err))]
    [] c = "optfail"     -> [op |-> "opt", p |-> Chain(Append(items, Err))]
    [] c = "optseqfail"  -> [op |-> "opt", p |-> [op |-> "seq", p |-> Chain(Append(items, Err))]]

Top == frames[Len(frames)]
AddItem(it, dead) ==
  frames' = [frames EXCEPT ![Len(frames)] = [items |-> Append(@.items, it), dead |-> @.dead \/ dead]]

Push == /\ n < MaxSyms /\ ~Top.dead
        /\ AddItem([op |-> "pushlit", s |-> <<97 + pushes>>], FALSE)
        /\ pushes' = pushes + 1 /\ n' = n + 1
Drop == /\ n < MaxSyms /\ ~Top.dead
        /\ AddItem([op |-> "drop"], FALSE)
        /\ UNCHANGED pushes /\ n' = n + 1
Open == /\ n + 1 < MaxSyms /\ ~Top.dead /\ Len(frames) <= MaxDepth
        /\ frames' = Append(frames, Frame0)
        /\ UNCHANGED pushes /\ n' = n + 1
Close(c) ==
  /\ Len(frames) > 1 /\ n < MaxSyms
  /\ (Top.dead => ~Fails(c) /\ c \notin {"looknegfail", "optfail", "optseqfail"})   \* no second failure after a dead body
  /\ LET node == Wrap(c, Top.items)
         par == frames[Len(frames) - 1]
         dead == IF c \in {"looknegfail", "optfail", "optseqfail"} THEN FALSE ELSE (Top.dead \/ Fails(c)) IN
     frames' = Append(SubSeq(frames, 1, Len(frames) - 2), [items |-> Append(par.items, node), dead |-> par.dead \/ dead])
  /\ UNCHANGED pushes /\ n' = n + 1

Init == frames = <<Frame0>> /\ n = 0 /\ pushes = 0
Next == Push \/ Drop \/ Open \/ \E c \in Closers : Close(c)
Spec == Init /\ [][Next]_vars

Complete == Len(frames) = 1 /\ n >= 1
Prog == Chain(frames[1].items)
Out == Run(<<>>, Prog, St0)

\* ---- contracts on the model.  The wrapped calls are checked where they stand: the last item of the
\* outermost chain, started from the state the items before it left.
Before == Run(<<>>, Chain(SubSeq(frames[1].items, 1, Len(frames[1].items) - 1)), St0)
LastItem == frames[1].items[Len(frames[1].items)]
LastOut == Run(<<>>, LastItem, Before.st)
SameVisible(s, t) == s.pos = t.pos /\ s.q = t.q /\ s.cur = t.cur
NestedAllOrNothing ==
  (Complete /\ Before.k = "ok" /\ LastItem.op \in {"seq", "restore"}) => (LastOut.k = "err" => SameVisible(LastOut.st, Before.st))
NestedLookaheadNeutral ==
  (Complete /\ Before.k = "ok" /\ LastItem.op = "look") => (LastOut.k \in {"ok", "err"} => SameVisible(LastOut.st, Before.st))
NoSnapshotLeft == Complete => (Out.k \in {"ok", "err"} => Out.st.saved = <<>>)

Emit == Complete =>
          PrintT(ToJson([prog |-> Prog, cases |-> { [inp |-> <<>>, exp |-> Observable(<<>>, Out)] }]))
===============================================================================
