----------------------------- MODULE MC_ReaderGen -----------------------------
(***************************************************************************)
(* C07 spec -> impl: every abstract rule set                               *)
(*      r0 = <modifier> { E }      r1 = { "x" }                            *)
(* with E every expression tree up to MaxSize over all node kinds of the   *)
(* grammar language (literals with characters that need escaping, ranges,  *)
(* PEEK slices with negative / omitted bounds, every repetition form with  *)
(* counts from {1, 2, 10, 2147483647}), written in every style of          *)
(* MetaSyntax!Styles.  TLC prints the text and the abstract rules; the     *)
(* real reader must return exactly those rules.                            *)
(***************************************************************************)
EXTENDS MetaSyntax, TLC, Json
CONSTANTS MaxSize, Shard, NShards
VARIABLES c

S(cp) == [t |-> "str", s |-> cp]
Id(str, cp) == [t |-> "id", n |-> str, name |-> cp]
Leaves == { S(<<97>>), S(<<>>), S(<<233, 10, 97, 2309>>), S(<<2309, 3585, 92>>), [t |-> "range", lo |-> 2309, hi |-> 3585], S(<<34, 92, 10, 233, 39>>), S(<<9, 0, 127, 13>>), S(<<128512, 123>>),
            [t |-> "ins", s |-> <<98, 67>>],
            [t |-> "range", lo |-> 97, hi |-> 122], [t |-> "range", lo |-> 39, hi |-> 92], [t |-> "range", lo |-> 0, hi |-> 1114111],
            Id("r1", <<114, 49>>), Id("ANY", <<65, 78, 89>>), Id("ASCII_DIGIT", <<65, 83, 67, 73, 73, 95, 68, 73, 71, 73, 84>>),
            [t |-> "peek", lo |-> 0, hi |-> 0, open |-> TRUE, omitlo |-> TRUE],
            [t |-> "peek", lo |-> -2, hi |-> 1, open |-> FALSE, omitlo |-> FALSE],
            [t |-> "peek", lo |-> 0, hi |-> -1, open |-> FALSE, omitlo |-> TRUE],
            [t |-> "peek", lo |-> 1, hi |-> 0, open |-> TRUE, omitlo |-> FALSE] }
Unary == {"opt", "rep", "rep1", "and", "not", "push", "exact2", "exactbig", "min0", "min10", "max1", "minmax", "minmax0"}
MkUn(op, x) ==
  CASE op = "exact2" -> [t |-> "exact", a |-> x, n |-> 2]
    [] op = "exactbig" -> [t |-> "exact", a |-> x, n |-> 2147483647]
    [] op = "min0" -> [t |-> "min", a |-> x, n |-> 0]
    [] op = "min10" -> [t |-> "min", a |-> x, n |-> 10]
    [] op = "max1" -> [t |-> "max", a |-> x, n |-> 1]
    [] op = "minmax" -> [t |-> "minmax", a |-> x, m |-> 1, n |-> 2]
    [] op = "minmax0" -> [t |-> "minmax", a |-> x, m |-> 0, n |-> 10]
    [] OTHER -> [t |-> op, a |-> x]
RECURSIVE ExprsOfSize(_)
ExprsOfSize(n) ==
  IF n = 1 THEN Leaves
  ELSE { MkUn(op, x) : op \in Unary, x \in ExprsOfSize(n - 1) }
       \cup UNION { { [t |-> op, a |-> x, b |-> y] : op \in {"seq", "alt"}, x \in ExprsOfSize(i), y \in ExprsOfSize(n - 1 - i) } : i \in 1..(n - 2) }
\* shapes beyond MaxSize in which grouping matters: same and mixed binary operators nested to the left and to the
\* right (parentheses that must be kept when the operators are equal), unary operators over binary ones, binary
\* operators over unary ones
L3 == { S(<<97>>), Id("r1", <<114, 49>>), S(<<>>) }
U3 == {"opt", "not", "exact2", "rep1"}
Bin(o, x, y) == [t |-> o, a |-> x, b |-> y]
Shapes ==
  UNION { { Bin(o1, x, Bin(o2, y, z)), Bin(o1, Bin(o2, x, y), z) } : o1 \in {"seq", "alt"}, o2 \in {"seq", "alt"}, x \in L3, y \in L3, z \in L3 }
  \cup { MkUn(op, Bin(o, x, y)) : op \in Unary, o \in {"seq", "alt"}, x \in L3, y \in L3 }
  \cup { Bin(o, MkUn(p, x), MkUn(q, y)) : o \in {"seq", "alt"}, p \in U3, q \in U3, x \in L3, y \in L3 }
  \cup { Bin(o, x, Bin(o, y, Bin(o, z, x))) : o \in {"seq", "alt"}, x \in L3, y \in L3, z \in L3 }
  \cup { Bin(o, Bin(o, x, Bin(o, y, z)), x) : o \in {"seq", "alt"}, x \in L3, y \in L3, z \in L3 }
\* MaxSize = 0: the constructs that exist only with grammar-extras (read by the build with the feature on): PUSH_LITERAL
\* with literals that need every escape form, node tags in front of terms with prefix and postfix operators, under
\* operators and on either side of `~` and `|`
PL(x) == [t |-> "pushlit", s |-> x]
Tg(x) == [t |-> "tag", a |-> x]
XLits == { <<97>>, <<>>, <<34, 92, 10, 233, 39>>, <<9, 0, 127, 13>>, <<2309, 92, 34>> }
XExprs ==
  { PL(x) : x \in XLits }
  \cup { Tg(x) : x \in L3 } \cup { Tg(MkUn(op, x)) : op \in U3 \cup {"push"}, x \in L3 } \cup { MkUn(op, Tg(x)) : op \in U3 \cup {"push"}, x \in L3 }
  \cup { Tg(MkUn("not", MkUn("rep1", x))) : x \in L3 } \cup { Tg(PL(x)) : x \in XLits }
  \cup UNION { { Bin(o, Tg(x), y), Bin(o, y, Tg(x)), Bin(o, PL(<<34, 92, 10, 233, 39>>), x), Tg(Bin(o, x, y)) } : o \in {"seq", "alt"}, x \in L3, y \in L3 }
  \cup { MkUn(op, PL(x)) : op \in U3, x \in XLits }
Exprs == IF MaxSize = 0 THEN XExprs ELSE UNION { ExprsOfSize(n) : n \in 1..MaxSize } \cup Shapes

\* the expression in the exchange format of the harness (what rules_json exports of the real AST)
RECURSIVE Ast(_)
Ast(e) ==
  CASE e.t \in {"str", "ins"} -> [t |-> e.t, s |-> e.s]
    [] e.t = "range" -> [t |-> "range", lo |-> e.lo, hi |-> e.hi]
    [] e.t = "id" -> [t |-> "id", n |-> e.n]
    [] e.t = "pushlit" -> [t |-> "pushlit", s |-> e.s]
    [] e.t = "tag" -> [t |-> "tag", a |-> Ast(e.a), tag |-> "t"]
    [] e.t = "peek" -> [t |-> "peek", lo |-> e.lo, hi |-> IF e.open THEN 0 ELSE e.hi, open |-> e.open]
    [] e.t \in {"seq", "alt"} -> [t |-> e.t, a |-> Ast(e.a), b |-> Ast(e.b)]
    [] e.t \in {"exact", "min", "max"} -> [t |-> e.t, a |-> Ast(e.a), n |-> e.n]
    [] e.t = "minmax" -> [t |-> "minmax", a |-> Ast(e.a), m |-> e.m, n |-> e.n]
    [] OTHER -> [t |-> e.t, a |-> Ast(e.a)]

Tys == { [ty |-> "", ch |-> <<>>], [ty |-> "_", ch |-> <<95>>], [ty |-> "@", ch |-> <<64>>], [ty |-> "$", ch |-> <<36>>], [ty |-> "!", ch |-> <<33>>] }

RECURSIVE H(_)
H(e) == CASE e.t \in {"str", "ins", "pushlit"} -> (3 + 5 * Len(e.s)) % 1009
          [] e.t = "id" -> 7 [] e.t = "range" -> (e.lo + 11) % 1009 [] e.t = "peek" -> (e.lo + 20) % 1009
          [] e.t \in {"seq", "alt"} -> (17 * H(e.a) + 29 * H(e.b) + 1) % 1009
          [] OTHER -> (31 * H(e.a) + 13 + (IF "n" \in DOMAIN e THEN e.n % 7 ELSE 0)) % 1009

\* the modifier only varies with the first style; the styles vary with every expression
Cases == { x \in Exprs \X Tys \X Styles : H(x[1]) % NShards = Shard /\ (x[2].ty = "" \/ x[3].gap = "sp") }

Init == c \in Cases
Next == UNCHANGED c
Spec == Init /\ [][Next]_c

Rules == << [name |-> <<114, 48>>, ty |-> c[2].ty, tych |-> c[2].ch, e |-> c[1]],
            [name |-> <<114, 49>>, ty |-> "", tych |-> <<>>, e |-> S(<<120>>)] >>
Emit == PrintT(ToJson([text |-> Text(Rules, c[3]), style |-> c[3],
                       rules |-> [r0 |-> [ty |-> c[2].ty, e |-> Ast(c[1])], r1 |-> [ty |-> "", e |-> [t |-> "str", s |-> <<120>>]]]]))
===============================================================================
