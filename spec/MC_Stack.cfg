SPECIFICATION Spec
CONSTANTS
  Vals = {"a", "b"}
  MaxLen = 4
  MaxNest = 3
CONSTRAINT Bound
INVARIANTS Refines NoPanic SameRet WellFormed
CHECK_DEADLOCK FALSE
