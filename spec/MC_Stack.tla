------------------------------- MODULE MC_Stack -------------------------------
(***************************************************************************)
(* T1: the copy-free stack scheme (Stack) refines the copying model        *)
(* (StackNaive) for every history inside the bounds: same contents, same   *)
(* returned elements, no out-of-range arithmetic.                          *)
(***************************************************************************)
EXTENDS Stack, TLC
CONSTANTS Vals, MaxLen, MaxNest
VARIABLES n, i

Ops == [o : {"push"}, v : Vals] \cup [o : OpNames \ {"push"}, v : {""}]

Init == n = NInit /\ i = IInit
Next == \E op \in Ops :
           /\ n' = NApply(n, op)
           /\ i' = IApply(i, op)
Spec == Init /\ [][Next]_<<n, i>>

Bound == Len(n.cur) <= MaxLen /\ Len(n.saved) <= MaxNest

Refines == i.cache = n.cur /\ Len(i.lengths) = Len(n.saved)
NoPanic == \A op \in Ops : IOk(i, op)
SameRet == \A op \in Ops : IRet(i, op) = NRet(n, op)
WellFormed == IWellFormed(i)
===============================================================================
