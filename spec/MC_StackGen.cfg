SPECIFICATION Spec
CONSTANTS
  Vals = {"a", "b"}
  Depth = 7
INVARIANT Emit
CHECK_DEADLOCK FALSE
