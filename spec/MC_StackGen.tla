------------------------------ MODULE MC_StackGen ------------------------------
(***************************************************************************)
(* Behaviour generation for C11 (spec -> impl): every history of exactly   *)
(* Depth operations over the six stack operations is a behaviour of        *)
(* StackNaive; for each one TLC prints the operations together with the    *)
(* expected return value and contents after every step.  The harness       *)
(* replays each history on a real pest::Stack<String>.                     *)
(***************************************************************************)
EXTENDS StackNaive, TLC, Json
CONSTANTS Vals, Depth
VARIABLES n, hist

\* peek is a pure observation: the harness peeks after every step and compares with the
\* top of the expected contents, so it need not be enumerated as an operation here.
Ops == [o : {"push"}, v : Vals] \cup [o : OpNames \ {"push", "peek"}, v : {""}]

Init == n = NInit /\ hist = <<>>
Next == /\ Len(hist) < Depth
        /\ \E op \in Ops :
             /\ n' = NApply(n, op)
             /\ hist' = Append(hist, [o |-> op.o, v |-> op.v, ret |-> NRet(n, op),
                                      cur |-> NApply(n, op).cur])
Spec == Init /\ [][Next]_<<n, hist>>

\* histories that end in a pure observation or leave nothing to check are still printed:
\* the replay compares after every step, so each prefix is covered by its extensions.
Emit == Len(hist) = Depth => PrintT(ToJson(hist))
===============================================================================
