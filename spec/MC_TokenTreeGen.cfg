SPECIFICATION Spec
CONSTANTS
  MaxNodes = 3
  MaxOps = 4
  Shard = 0
  NShards = 1
INVARIANTS GenWellFormed Emit
CHECK_DEADLOCK FALSE
