---------------------------- MODULE MC_TokenTreeGen ----------------------------
(***************************************************************************)
(* C04 spec -> impl: every well-formed forest with at most MaxNodes pairs  *)
(* over the input "a<e-acute>b" (byte boundaries 0, 1, 3, 4; rules 1..2;   *)
(* a tag on at most the first pair), together with every interleaving of   *)
(* next / next_back of length up to MaxOps.                                *)
(***************************************************************************)
EXTENDS TokenTree, TLC, Json
CONSTANTS MaxNodes, MaxOps, Shard, NShards
VARIABLES f

Inp == <<97, 233, 98>>
B == <<0, 1, 3, 4>>        \* boundaries, in order

\* forests with exactly n nodes whose spans lie between boundary indices lo..hi
RECURSIVE Forests(_, _, _)
Forests(n, lo, hi) ==
  IF n = 0 THEN {<<>>}
  ELSE UNION { UNION { UNION {
         { <<[r |-> r, s |-> B[si], e |-> B[ei], tag |-> "", c |-> kids]>> \o rest :
             r \in 1..2, kids \in Forests(k, si, ei), rest \in Forests(n - 1 - k, ei, hi) }
         : k \in 0..(n - 1) } : ei \in si..hi } : si \in lo..hi }

AllForests == UNION { Forests(n, 1, 4) : n \in 0..MaxNodes }
WithTag(x) == IF x = <<>> THEN {x} ELSE {x, [x EXCEPT ![1].tag = "t"]}

RECURSIVE OpSeqs(_)
OpSeqs(n) == IF n = 0 THEN {<<>>} ELSE {<<>>} \cup { <<o>> \o s : o \in {"N", "B"}, s \in OpSeqs(n - 1) }
\* maximal sequences only: every shorter one is a prefix and is checked step by step
MaxSeqs == { s \in OpSeqs(MaxOps) : Len(s) = MaxOps }
RECURSIVE Str(_)
Str(s) == IF s = <<>> THEN "" ELSE s[1] \o Str(Tail(s))

RECURSIVE H(_)
H(x) == IF x = <<>> THEN 5 ELSE (3 * H(x[1].c) + 7 * H(Tail(x)) + x[1].s + 2 * x[1].e + x[1].r) % 1009

Init == f \in UNION { WithTag(x) : x \in { y \in AllForests : H(y) % NShards = Shard } }
Next == UNCHANGED f
Spec == Init /\ [][Next]_f

GenWellFormed == WellFormed(f, 0, 4, {0, 1, 3, 4}) /\ WellFormedStream(Toks(f), {0, 1, 3, 4})
Emit == PrintT(ToJson([inp |-> Inp, forest |-> f, ops |-> { Str(s) : s \in MaxSeqs }]))
===============================================================================
