SPECIFICATION Spec
CONSTANTS
  Slice = "rec"
  Shard = 0
  NShards = 16
  SizeOverride = 2
INVARIANT Emit
CHECK_DEADLOCK FALSE
