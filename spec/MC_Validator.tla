----------------------------- MODULE MC_Validator -----------------------------
(***************************************************************************)
(* C06, spec -> impl.  TLC enumerates stack-free grammars                  *)
(*      m = { E }   r1 = { body }   [WHITESPACE / COMMENT = { body }]      *)
(* with every operator around every possible leftmost rule reference, and  *)
(* prints for each one: does it diverge (with a shortest witness), is it   *)
(* Guarded.  The harness asks the real validator: accepted /\ diverges     *)
(* => the witness is run on the real VM (soundness); guarded /\ rejected   *)
(* => completeness violation.                                              *)
(***************************************************************************)
EXTENDS Validator, TLC, Json
CONSTANTS Slice, Shard, NShards, SizeOverride
VARIABLES g

S(str) == [t |-> "str", s |-> str]
Id(n) == [t |-> "id", n |-> n]
Un(op, x) == [t |-> op, a |-> x]
Bin(op, x, y) == [t |-> op, a |-> x, b |-> y]
a == <<97>>  sp == <<32>>

MkUn(op, x) ==
  CASE op = "exact2"   -> [t |-> "exact", a |-> x, n |-> 2]
    [] op = "min1"     -> [t |-> "min", a |-> x, n |-> 1]
    [] op = "min0"     -> [t |-> "min", a |-> x, n |-> 0]
    [] op = "max2"     -> [t |-> "max", a |-> x, n |-> 2]
    [] op = "minmax12" -> [t |-> "minmax", a |-> x, m |-> 1, n |-> 2]
    [] op = "minmax02" -> [t |-> "minmax", a |-> x, m |-> 0, n |-> 2]
    [] op = "minmax11" -> [t |-> "minmax", a |-> x, m |-> 1, n |-> 1]
    [] OTHER           -> Un(op, x)

Leaves == {S(a), S(<<>>), Id("m"), Id("r1"), Id("ANY"), Id("EOI")}
Unary  == {"opt", "rep", "rep1", "not", "and", "exact2", "min1", "min0", "max2", "minmax12", "minmax02", "minmax11"}
Binary == {"seq", "alt"}

RECURSIVE ExprsOfSize(_)
ExprsOfSize(n) ==
  IF n = 1 THEN Leaves
  ELSE { MkUn(op, x) : op \in Unary, x \in ExprsOfSize(n - 1) }
       \cup UNION { { Bin(op, x, y) : op \in Binary, x \in ExprsOfSize(i), y \in ExprsOfSize(n - 1 - i) }
                    : i \in 1..(n - 2) }
MaxSize == IF SizeOverride > 0 THEN SizeOverride ELSE 3
Exprs == UNION { ExprsOfSize(n) : n \in 1..MaxSize }

AuxPool == { S(a), S(<<>>), Un("opt", Id("m")), Bin("seq", Id("m"), S(a)), Bin("seq", S(a), Id("m")),
             Un("not", Id("m")), Un("opt", S(a)), Bin("alt", S(a), Id("m")), Un("rep", S(a)),
             Bin("seq", Un("opt", S(a)), Id("m")), Id("r1"), MkUn("exact2", Id("m")) }
WsPool  == { S(sp), S(<<>>), Un("opt", S(sp)), Un("not", S(sp)), Un("rep", S(sp)), Bin("alt", S(sp), S(<<>>)),
             Id("m"), Bin("seq", S(sp), Un("opt", S(sp))), Un("rep1", S(sp)), Id("EOI"),
             \* bodies that begin by consuming and hold a repetition that can spin further in
             Bin("seq", S(sp), Un("rep", Un("not", S(a)))), Bin("seq", S(sp), Un("rep1", Un("opt", S(sp)))),
             Bin("seq", S(sp), Un("rep", S(<<>>))), Bin("seq", S(sp), Un("rep", S(sp))) }

Tg(x) == [t |-> "tag", a |-> x, tag |-> "t"]
\* (a tag over built-ins - which yield no pair - is refused for that reason alone: left out)
TagExprs == { e \in UNION { ExprsOfSize(n) : n \in 1..3 } : Refs(e) \cap {"EOI", "ANY"} = {} }

\* a repetition whose body reaches the rule it stands in (directly or through r1) after that rule has consumed
\* something: no left recursion, but the rule may be nullable and the repetition then spins
SelfExprs ==
  UNION { { Bin("alt", Bin("seq", pre, MkUn(op, t)), S(<<>>)), Bin("seq", pre, MkUn(op, t)), Un("opt", Bin("seq", pre, MkUn(op, t))),
            Bin("alt", Bin("seq", pre, MkUn(op, t)), S(a)) }
          : op \in {"rep", "rep1", "min0", "min1", "minmax02"}, t \in {Id("m"), Id("r1")}, pre \in {S(a), Un("opt", S(a)), Un("not", S(sp))} }

\* shapes in which a rule is referenced twice (the validator's visited-set must be a path, not a set)
TwX == { Id("r1"), S(a), S(<<>>), Un("opt", Id("r1")) }
TwiceExprs ==
  UNION { { MkUn(op, Bin("seq", x, y)) : op \in {"rep", "rep1", "min1", "min0"} }
          \cup { Bin("seq", x, Bin("seq", y, Id("m"))), Bin("alt", Bin("seq", x, y), S(a)),
                 Un("rep", Bin("alt", Bin("seq", x, y), S(a))) } : x \in TwX, y \in TwX }
TwiceAux == AuxPool \cup { Un("and", S(a)), Un("not", S(a)), Bin("seq", Un("and", S(a)), Un("not", S(sp))),
                           Un("opt", Un("and", S(a))), Id("EOI") }

\* user rules named like a non-keyword built-in (NEWLINE): the user's definition is what runs, so the validator
\* must judge it by that definition and not by what the built-in of that name would do
NL == Id("NEWLINE")
ShadowBodies == { Un("and", S(a)), Un("opt", S(a)), Bin("alt", S(a), Id("EOI")), S(<<>>), S(a), Un("not", S(a)), Un("rep", S(a)) }
ShadowExprs ==
  { Un("rep", NL), Un("rep1", NL), MkUn("min0", NL), MkUn("min1", NL),
    Un("rep", Bin("seq", NL, Un("opt", S(a)))), Un("rep", Bin("alt", NL, S(a))), Un("rep", Bin("seq", NL, NL)),
    Bin("seq", Un("rep", Bin("seq", Un("not", NL), Id("ANY"))), NL),
    Bin("alt", Bin("seq", NL, Id("m")), S(a)), Bin("seq", NL, Un("opt", Id("m"))),
    Bin("alt", NL, S(a)), Bin("seq", S(a), Un("rep", NL)) }

Grammars ==
  CASE Slice = "shadow" ->
         { [m |-> [ty |-> "", e |-> e], r1 |-> [ty |-> "", e |-> S(a)], NEWLINE |-> [ty |-> t, e |-> x]] :
             e \in ShadowExprs, x \in ShadowBodies, t \in {"", "_"} }
         \cup
         { [m |-> [ty |-> "", e |-> Bin("seq", S(a), S(a))], r1 |-> [ty |-> "", e |-> S(a)], NEWLINE |-> [ty |-> "", e |-> x],
            WHITESPACE |-> [ty |-> "_", e |-> w]] : x \in ShadowBodies, w \in { NL, Bin("alt", S(sp), NL), Bin("seq", NL, S(sp)) } }
    [] Slice = "wsna" ->   \* skip rules that refer to rules of every modifier whose bodies have implicit skip points
         { [m |-> [ty |-> "", e |-> Bin("seq", S(a), S(a))], r1 |-> [ty |-> t, e |-> x], WHITESPACE |-> [ty |-> wt, e |-> w]] :
             t \in {"", "_", "@", "$", "!"}, wt \in {"_", "", "!"},
             x \in { Bin("seq", S(<<>>), S(sp)), Bin("seq", Un("opt", S(a)), S(sp)), Un("rep1", S(sp)), Bin("seq", S(sp), Un("opt", S(sp))), S(sp) },
             w \in { Id("r1"), Bin("alt", Id("r1"), S(a)), Bin("seq", S(sp), Id("r1")) } }
    [] Slice = "twice" ->
         { [m |-> [ty |-> "", e |-> e], r1 |-> [ty |-> "", e |-> x]] : e \in TwiceExprs, x \in TwiceAux }
         \cup
         { [m |-> [ty |-> "", e |-> Bin("seq", S(a), S(a))], r1 |-> [ty |-> "", e |-> x],
            WHITESPACE |-> [ty |-> "_", e |-> Bin("seq", Id("r1"), Id("r1"))]] : x \in TwiceAux }
    [] Slice = "tag" ->    \* grammar-extras: the expression sits under a node tag (#t = e), alone and as part of a sequence
         { [m |-> [ty |-> "", e |-> Tg(e)], r1 |-> [ty |-> "", e |-> x]] : e \in TagExprs, x \in {S(a), S(<<>>), Un("opt", Id("m"))} }
         \cup { [m |-> [ty |-> "", e |-> Bin("seq", S(a), Tg(e))], r1 |-> [ty |-> "", e |-> x]] : e \in TagExprs, x \in {S(a), S(<<>>)} }
    [] Slice = "three" ->  \* a left-recursive cycle between r1 and r2 that does not pass through m, which reaches it in leftmost position
         { [m |-> [ty |-> "", e |-> e], r1 |-> [ty |-> "", e |-> x], r2 |-> [ty |-> "", e |-> y], r3 |-> [ty |-> "", e |-> z]] :
             e \in { Bin("seq", Id("r1"), S(a)), Bin("alt", S(a), Id("r2")), Un("opt", Id("r1")), S(a) },
             x \in { Bin("alt", Bin("seq", Id("r2"), S(a)), S(a)), Id("r2"), Bin("seq", Un("opt", S(a)), Id("r2")) },
             y \in { Bin("alt", Bin("seq", Id("r1"), S(a)), S(a)), Id("r1"), Bin("seq", S(a), Id("r1")) },
             z \in { Id("r1"), Bin("seq", Id("r2"), Id("m")), S(a) } }
    [] Slice = "self" ->
         { [m |-> [ty |-> t, e |-> e], r1 |-> [ty |-> "", e |-> x]] : e \in SelfExprs, x \in AuxPool, t \in {"", "_"} }
    [] Slice = "rec" ->
         { [m |-> [ty |-> "", e |-> e], r1 |-> [ty |-> "", e |-> x]] : e \in Exprs, x \in AuxPool }
    [] Slice = "ws" ->
         { [m |-> [ty |-> "", e |-> e], r1 |-> [ty |-> "", e |-> S(a)], WHITESPACE |-> [ty |-> "_", e |-> w]] :
             e \in { Bin("seq", S(a), S(a)), Un("rep", S(a)), Un("rep1", S(a)), Bin("seq", Id("r1"), Un("opt", Id("r1"))) },
             w \in WsPool }
         \cup
         { [m |-> [ty |-> "", e |-> Bin("seq", S(a), S(a))], r1 |-> [ty |-> "", e |-> S(a)], COMMENT |-> [ty |-> "_", e |-> w]] :
             w \in WsPool }
         \cup  \* both skip rules defined, one of them sound (in either order of definition: see the printer) and one from the pool
         { [m |-> [ty |-> "", e |-> Bin("seq", S(a), S(a))], r1 |-> [ty |-> "", e |-> S(a)], WHITESPACE |-> [ty |-> "_", e |-> S(sp)],
            COMMENT |-> [ty |-> "_", e |-> w]] : w \in WsPool }
         \cup
         { [m |-> [ty |-> "", e |-> Bin("seq", S(a), S(a))], r1 |-> [ty |-> "", e |-> S(a)], COMMENT |-> [ty |-> "_", e |-> S(<<35>>)],
            WHITESPACE |-> [ty |-> "_", e |-> w]] : w \in WsPool }

TCode == [str |-> 1, ins |-> 2, range |-> 3, id |-> 4, peek |-> 5, seq |-> 6, alt |-> 7, opt |-> 8, rep |-> 9,
          rep1 |-> 10, not |-> 11, and |-> 12, push |-> 13, exact |-> 14, min |-> 15, max |-> 16, minmax |-> 17,
          tag |-> 18, pushlit |-> 19]
RECURSIVE Hash(_)
Hash(e) == CASE e.t \in {"str", "ins", "pushlit"} -> (3 + 5 * Len(e.s) + (IF e.s = <<>> THEN 0 ELSE e.s[1])) % 1009
             [] e.t = "id" -> (7 + 13 * Len(e.n)) % 1009
             [] e.t \in {"seq", "alt"} -> (17 * Hash(e.a) + 29 * Hash(e.b) + TCode[e.t]) % 1009
             [] e.t \in {"range", "peek"} -> 5 + TCode[e.t]
             [] OTHER -> (31 * Hash(e.a) + 3 * TCode[e.t] + (IF "n" \in DOMAIN e THEN e.n ELSE 0)) % 1009
Mine(x) == (Hash(x.m.e) % NShards) = Shard

Init == g \in { x \in Grammars : Mine(x) }
Next == UNCHANGED g
Spec == Init /\ [][Next]_g

Emit ==
  LET w == DivWitness(g, {97, 32}, 3, 30) IN
  PrintT(ToJson([g |-> g, diverges |-> w # <<>>,
                 cause |-> IF w # <<>> /\ SkipReentryOnly(g, w, 30) THEN "skip rule reaches a non-atomic rule that skips implicitly" ELSE "",
                 witness |-> IF w = <<>> THEN [start |-> "", inp |-> <<>>] ELSE [start |-> w[1], inp |-> w[2]],
                 guarded |-> Guarded(g)]))
===============================================================================
