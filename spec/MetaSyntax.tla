------------------------------- MODULE MetaSyntax -------------------------------
(***************************************************************************)
(* Concrete syntax of pest's grammar language as a SPELLER (property C07): *)
(* Text(rules, st) is the text (a sequence of code points) that writes the *)
(* abstract rules `rules` in the style `st`.  A style fixes                *)
(*   par    "min": only the parentheses precedence requires;               *)
(*          "all": every operand parenthesised                             *)
(*   gap    what separates two tokens: nothing, a blank, a line break, a   *)
(*          block comment, a line comment                                  *)
(*   lead   a leading `|` in front of each rule's expression               *)
(*   esc    how the characters of literals are written: raw, \xNN,         *)
(*          \u{N..}, or the short escapes \n \r \t \0 \\ \" \'            *)
(*   num    repetition counts and PEEK indices plain or with leading zeros *)
(*   docs   //! and /// documentation lines                                *)
(*   leadin a leading `|` also inside parentheses and PUSH( )              *)
(* Precedence: choice < sequence < prefix predicates < postfix operators;  *)
(* operators of equal level group left to right.  Reading Text(rules, st)  *)
(* with pest_meta must give back exactly `rules`.                          *)
(***************************************************************************)
EXTENDS Naturals, Integers, Sequences

RECURSIVE Digits(_)
Digits(n) == IF n < 10 THEN <<48 + n>> ELSE Digits(n \div 10) \o <<48 + (n % 10)>>
Num(n, st) == IF st.num = "zeros" THEN <<48>> \o Digits(n) ELSE Digits(n)
IntTok(i, st) == IF i < 0 THEN <<45>> \o (IF st.num = "zeros" THEN <<48, 48>> ELSE <<>>) \o Digits(0 - i) ELSE Num(i, st)

HexDigit(d) == IF d < 10 THEN 48 + d ELSE 87 + d
RECURSIVE Hex(_)
Hex(n) == IF n < 16 THEN <<HexDigit(n)>> ELSE Hex(n \div 16) \o <<HexDigit(n % 16)>>
Hex2(n) == IF n < 16 THEN <<48>> \o Hex(n) ELSE Hex(n)

\* one character of a string (quote = 34) or character (quote = 39) literal
Chr(c, quote, st) ==
  LET short == CASE c = 10 -> <<92, 110>> [] c = 13 -> <<92, 114>> [] c = 9 -> <<92, 116>> [] c = 0 -> <<92, 48>>
                 [] c = 92 -> <<92, 92>> [] c = 34 -> <<92, 34>> [] c = 39 -> <<92, 39>> [] OTHER -> <<>>
      must  == c = 92 \/ c = quote                       \* cannot be written raw
  IN CASE st.esc = "hex" /\ c < 256 -> <<92, 120>> \o Hex2(c)    \* \xNN is the character U+00NN, above 7F too
       [] st.esc = "uni" -> <<92, 117, 123>> \o Hex2(c) \o <<125>>
       [] st.esc = "short" /\ short # <<>> -> short
       [] must -> short
       [] OTHER -> <<c>>
RECURSIVE Chars(_, _, _)
Chars(s, quote, st) == IF s = <<>> THEN <<>> ELSE Chr(s[1], quote, st) \o Chars(Tail(s), quote, st)
StrLit(s, st) == <<34>> \o Chars(s, 34, st) \o <<34>>
ChrLit(c, st) == <<39>> \o Chr(c, 39, st) \o <<39>>

Gap(st) == CASE st.gap = "none" -> <<>> [] st.gap = "sp" -> <<32>> [] st.gap = "nl" -> <<10>>
             [] st.gap = "block" -> <<32, 47, 42, 32, 99, 32, 42, 47, 32>> [] OTHER -> <<32, 47, 47, 32, 99, 10>>

\* tokens are joined with the style's gap
RECURSIVE Join(_, _)
Join(toks, st) == IF toks = <<>> THEN <<>> ELSE IF Len(toks) = 1 THEN toks[1]
                  ELSE toks[1] \o Gap(st) \o Join(Tail(toks), st)

\* (a node tag - grammar-extras - stands in front of a whole term: `#t = !x*`; it needs parentheses wherever a term's
\* operators or the right-hand side of `~` would otherwise claim it)
Level(e) == CASE e.t = "alt" -> 1 [] e.t \in {"seq", "tag"} -> 2 [] e.t \in {"and", "not"} -> 3
              [] e.t \in {"opt", "rep", "rep1", "exact", "min", "max", "minmax"} -> 4 [] OTHER -> 5

\* token list of expression e in a position that needs at least level `need`
RECURSIVE Toks(_, _, _)
Toks(e, need, st) ==
  LET paren == st.par = "all" \/ Level(e) < need
      inner ==
        CASE e.t = "str"   -> << StrLit(e.s, st) >>
          [] e.t = "ins"   -> << <<94>>, StrLit(e.s, st) >>
          [] e.t = "range" -> << ChrLit(e.lo, st), <<46, 46>>, ChrLit(e.hi, st) >>
          [] e.t = "id"    -> << e.name >>
          [] e.t = "peek"  -> << <<80, 69, 69, 75>>, <<91>> >> \o (IF e.lo = 0 /\ e.omitlo THEN <<>> ELSE << IntTok(e.lo, st) >>) \o << <<46, 46>> >>
                              \o (IF e.open THEN <<>> ELSE << IntTok(e.hi, st) >>) \o << <<93>> >>
          [] e.t = "alt"   -> Toks(e.a, 1, st) \o << <<124>> >> \o Toks(e.b, 2, st)
          [] e.t = "seq"   -> Toks(e.a, 2, st) \o << <<126>> >> \o Toks(e.b, 3, st)
          [] e.t = "and"   -> << <<38>> >> \o Toks(e.a, 3, st)
          [] e.t = "not"   -> << <<33>> >> \o Toks(e.a, 3, st)
          [] e.t = "opt"   -> Toks(e.a, 4, st) \o << <<63>> >>
          [] e.t = "rep"   -> Toks(e.a, 4, st) \o << <<42>> >>
          [] e.t = "rep1"  -> Toks(e.a, 4, st) \o << <<43>> >>
          [] e.t = "exact" -> Toks(e.a, 4, st) \o << <<123>>, Num(e.n, st), <<125>> >>
          [] e.t = "min"   -> Toks(e.a, 4, st) \o << <<123>>, Num(e.n, st), <<44>>, <<125>> >>
          [] e.t = "max"   -> Toks(e.a, 4, st) \o << <<123>>, <<44>>, Num(e.n, st), <<125>> >>
          [] e.t = "minmax" -> Toks(e.a, 4, st) \o << <<123>>, Num(e.m, st), <<44>>, Num(e.n, st), <<125>> >>
          [] e.t = "pushlit" -> << <<80, 85, 83, 72, 95, 76, 73, 84, 69, 82, 65, 76>>, <<40>>, StrLit(e.s, st), <<41>> >>
          [] e.t = "tag"   -> << <<35, 116>>, <<61>> >> \o Toks(e.a, 3, st)
          [] e.t = "push"  -> << <<80, 85, 83, 72>>, <<40>> >> \o (IF st.leadin THEN << <<124>> >> ELSE <<>>) \o Toks(e.a, 1, st) \o << <<41>> >>
      bar   == IF st.leadin THEN << <<124>> >> ELSE <<>>      \* a nested expression may start with `|` as well
  IN IF paren THEN << <<40>> >> \o bar \o inner \o << <<41>> >> ELSE inner

RuleToks(r, st) ==
  (IF st.docs THEN << <<47, 47, 47, 32, 100, 13, 120, 9, 10>> >> ELSE <<>>)      \* "/// d<CR>x<TAB><LF>": a lone CR does not end the line
  \o << r.name, <<61>> >> \o (IF r.ty = "" THEN <<>> ELSE << r.tych >>) \o << <<123>> >>
  \o (IF st.lead THEN << <<124>> >> ELSE <<>>) \o Toks(r.e, 1, st) \o << <<125>> >>

RECURSIVE AllToks(_, _)
AllToks(rules, st) == IF rules = <<>> THEN <<>> ELSE RuleToks(rules[1], st) \o AllToks(Tail(rules), st)

Text(rules, st) == (IF st.docs THEN <<47, 47, 33, 32, 103, 13, 104, 13, 10>> ELSE <<>>) \o Join(AllToks(rules, st), st) \o (IF st.gap = "line" THEN <<10>> ELSE <<>>)

Styles == {
  [par |-> "min", gap |-> "sp",    lead |-> FALSE, esc |-> "raw",   num |-> "plain", docs |-> FALSE, leadin |-> FALSE],
  [par |-> "min", gap |-> "none",  lead |-> FALSE, esc |-> "raw",   num |-> "plain", docs |-> FALSE, leadin |-> FALSE],
  [par |-> "all", gap |-> "sp",    lead |-> FALSE, esc |-> "short", num |-> "plain", docs |-> FALSE, leadin |-> FALSE],
  [par |-> "min", gap |-> "nl",    lead |-> TRUE,  esc |-> "hex",   num |-> "zeros", docs |-> FALSE, leadin |-> FALSE],
  [par |-> "min", gap |-> "block", lead |-> FALSE, esc |-> "uni",   num |-> "plain", docs |-> TRUE, leadin |-> FALSE],
  [par |-> "all", gap |-> "line",  lead |-> TRUE,  esc |-> "short", num |-> "zeros", docs |-> TRUE, leadin |-> FALSE],
  [par |-> "min", gap |-> "line",  lead |-> FALSE, esc |-> "hex",   num |-> "plain", docs |-> FALSE, leadin |-> FALSE],
  [par |-> "all", gap |-> "none",  lead |-> TRUE,  esc |-> "uni",   num |-> "zeros", docs |-> FALSE, leadin |-> FALSE],
  [par |-> "all", gap |-> "sp",    lead |-> TRUE,  esc |-> "raw",   num |-> "plain", docs |-> FALSE, leadin |-> TRUE] }
===============================================================================
