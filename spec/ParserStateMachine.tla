--------------------------- MODULE ParserStateMachine ---------------------------
(***************************************************************************)
(* A direct executable reading of the documented contracts of the public   *)
(* ParserState operations (property C03).  A PROGRAM is a finite tree of   *)
(* calls - what a user, the VM or generated code builds out of closures:   *)
(*   combinators  rule(r, p)  seq(p)  opt(p)  rep(p)  look(positive, p)    *)
(*                atomic(m, p)  push(p)  restore(p)                        *)
(*   chaining     then(a, b) = a.and_then(b)   else(a, b) = a.or_else(b)   *)
(*   primitives   str ins range charby skip until soi eoi peek pop         *)
(*                peekslice matchpeek matchpop drop pushlit tag ok err     *)
(* Run(inp, p, st) gives [k, st]: k = "ok" / "err" (the two arms of         *)
(* ParseResult), "panic" (stack_peek / stack_pop on an empty stack, as     *)
(* documented) or "div" (a repeat whose body succeeds without changing     *)
(* anything never returns).  The state st is                               *)
(*   pos   1-based character position                                      *)
(*   q     the token queue: [k |-> "S"/"E", p, r, tag]                      *)
(*   look  "n" none, "p" positive, "N" negative look-ahead                 *)
(*   atom  "N" non-atomic, "A" atomic, "C" compound atomic                 *)
(*   cur, saved   the stack and its snapshots (StackNaive)                 *)
(* (TLCEval forces TLC to evaluate a sub-run once; it has no meaning beyond *)
(* that.)                                                                  *)
(* The contracts: a failed sequence, and any look-ahead, leave position,   *)
(* queue and stack as they were; rule emits one balanced Start/End pair    *)
(* around what its body consumed iff it succeeds outside look-ahead and    *)
(* atomic mode; the matching primitives advance over exactly the matched   *)
(* text and do not move on failure; restore_on_err restores the stack.     *)
(***************************************************************************)
EXTENDS Naturals, Integers, Sequences, StackNaive, TLC

StartsWith(inp, p, s) == p + Len(s) - 1 <= Len(inp) /\ \A i \in 1..Len(s) : inp[p + i - 1] = s[i]
Lower(c) == IF c >= 65 /\ c <= 90 THEN c + 32 ELSE c
StartsWithInsens(inp, p, s) == p + Len(s) - 1 <= Len(inp) /\ \A i \in 1..Len(s) : Lower(inp[p + i - 1]) = Lower(s[i])

CharIn(set, c) ==
  CASE set = "digit" -> c >= 48 /\ c <= 57
    [] set = "alpha" -> (c >= 97 /\ c <= 122) \/ (c >= 65 /\ c <= 90)
    [] set = "any"   -> TRUE
    [] OTHER         -> FALSE

RECURSIVE Until(_, _, _)
Until(inp, p, ss) ==
  IF p > Len(inp) THEN Len(inp) + 1
  ELSE IF \E i \in 1..Len(ss) : StartsWith(inp, p, ss[i]) THEN p
  ELSE Until(inp, p + 1, ss)

RECURSIVE MatchAll(_, _, _)
MatchAll(inp, p, ss) == IF ss = <<>> THEN p ELSE IF StartsWith(inp, p, ss[1]) THEN MatchAll(inp, p + Len(ss[1]), Tail(ss)) ELSE 0
Rev(s) == [i \in 1..Len(s) |-> s[Len(s) + 1 - i]]
NormIdx(i, len) == IF i > len THEN -1 ELSE IF i >= 0 THEN i ELSE IF len + i >= 0 THEN len + i ELSE -1

R(k, st) == [k |-> k, st |-> st]
Stk(st) == [cur |-> st.cur, saved |-> st.saved]
WithStk(st, n) == [st EXCEPT !.cur = n.cur, !.saved = n.saved]
Op(o) == [o |-> o, v |-> <<>>]
Snapshot(st) == WithStk(st, NApply(Stk(st), Op("snapshot")))
ClearSnap(st) == WithStk(st, NApply(Stk(st), Op("clear")))
Restore(st) == WithStk(st, NApply(Stk(st), Op("restore")))

NewLook(old, positive) ==
  IF positive THEN (IF old = "N" THEN "N" ELSE "p")
  ELSE (IF old = "N" THEN "p" ELSE "N")

\* POP_ALL as documented for stack_match_pop: pops while matching, stops after the first mismatch
RECURSIVE PopAll(_, _, _)
PopAll(inp, p, cur) ==
  IF cur = <<>> THEN <<TRUE, p, cur>>
  ELSE IF StartsWith(inp, p, cur[Len(cur)]) THEN PopAll(inp, p + Len(cur[Len(cur)]), Front(cur))
  ELSE <<FALSE, p, Front(cur)>>

Stops(r) == r.k \in {"panic", "div"}

RECURSIVE Run(_, _, _), RepeatFrom(_, _, _, _)

\* repeat: apply p until it fails; the result is Ok with the state the failing application left.
\* An application that succeeds without moving the position can only lead to a failure by using up
\* the stack; `idle` counts such applications in a row, and past IdleBound the loop is reported as
\* not returning ("div": the real call would not return either, or only after a stack deeper than
\* any the bounded programs build; the harness does not run those cases).
IdleBound == 6
RepeatFrom(inp, p, st, idle) ==
  LET r == TLCEval(Run(inp, p, st)) IN
  IF Stops(r) THEN r
  ELSE IF r.k = "err" THEN R("ok", r.st)
  ELSE IF r.st = st \/ idle >= IdleBound THEN R("div", st)
  ELSE RepeatFrom(inp, p, r.st, IF r.st.pos = st.pos THEN idle + 1 ELSE 0)

Run(inp, p, st) ==
  LET o == p.op IN
  CASE o = "ok"  -> R("ok", st)
    [] o = "err" -> R("err", st)
    [] o = "str" -> IF StartsWith(inp, st.pos, p.s) THEN R("ok", [st EXCEPT !.pos = @ + Len(p.s)]) ELSE R("err", st)
    [] o = "ins" -> IF StartsWithInsens(inp, st.pos, p.s) THEN R("ok", [st EXCEPT !.pos = @ + Len(p.s)]) ELSE R("err", st)
    [] o = "range" -> IF st.pos <= Len(inp) /\ inp[st.pos] >= p.lo /\ inp[st.pos] <= p.hi
                      THEN R("ok", [st EXCEPT !.pos = @ + 1]) ELSE R("err", st)
    [] o = "charby" -> IF st.pos <= Len(inp) /\ CharIn(p.set, inp[st.pos]) THEN R("ok", [st EXCEPT !.pos = @ + 1]) ELSE R("err", st)
    [] o = "skip" -> IF st.pos + p.n - 1 <= Len(inp) THEN R("ok", [st EXCEPT !.pos = @ + p.n]) ELSE R("err", st)
    [] o = "until" -> R("ok", [st EXCEPT !.pos = Until(inp, st.pos, p.ss)])
    [] o = "soi" -> R(IF st.pos = 1 THEN "ok" ELSE "err", st)
    [] o = "eoi" -> R(IF st.pos = Len(inp) + 1 THEN "ok" ELSE "err", st)
    [] o = "pushlit" -> R("ok", [st EXCEPT !.cur = Append(@, p.s)])
    [] o = "peek" -> IF st.cur = <<>> THEN R("panic", st)
                     ELSE IF StartsWith(inp, st.pos, st.cur[Len(st.cur)]) THEN R("ok", [st EXCEPT !.pos = @ + Len(st.cur[Len(st.cur)])])
                     ELSE R("err", st)
    [] o = "pop" -> IF st.cur = <<>> THEN R("panic", st)
                    ELSE LET top == st.cur[Len(st.cur)]  s1 == [st EXCEPT !.cur = Front(@)] IN
                         IF StartsWith(inp, st.pos, top) THEN R("ok", [s1 EXCEPT !.pos = @ + Len(top)]) ELSE R("err", s1)
    [] o = "drop" -> IF st.cur = <<>> THEN R("err", st) ELSE R("ok", [st EXCEPT !.cur = Front(@)])
    [] o \in {"peekslice", "matchpeek"} ->
         LET len == Len(st.cur)
             lo  == IF o = "matchpeek" THEN 0 ELSE NormIdx(p.lo, len)
             hi  == IF o = "matchpeek" \/ p.open THEN len ELSE NormIdx(p.hi, len)
             t2b == o = "matchpeek" \/ p.dir = "t2b"
         IN IF lo < 0 \/ hi < 0 THEN R("err", st)
            ELSE IF hi <= lo THEN R("ok", st)
            ELSE LET slice == SubSeq(st.cur, lo + 1, hi)
                     m == MatchAll(inp, st.pos, IF t2b THEN Rev(slice) ELSE slice)
                 IN IF m = 0 THEN R("err", st) ELSE R("ok", [st EXCEPT !.pos = m])
    [] o = "matchpop" -> LET m == PopAll(inp, st.pos, st.cur) IN
                         IF m[1] THEN R("ok", [st EXCEPT !.pos = m[2], !.cur = m[3]]) ELSE R("err", [st EXCEPT !.cur = m[3]])
    [] o = "tag" -> IF st.look # "n" \/ st.q = <<>> \/ st.q[Len(st.q)].k # "E" THEN R("ok", st)
                    ELSE R("ok", [st EXCEPT !.q = [@ EXCEPT ![Len(@)].tag = p.t]])
    [] o = "then" -> LET r == TLCEval(Run(inp, p.a, st)) IN IF r.k = "ok" THEN Run(inp, p.b, r.st) ELSE r
    [] o = "else" -> LET r == TLCEval(Run(inp, p.a, st)) IN IF r.k = "err" THEN Run(inp, p.b, r.st) ELSE r
    [] o = "opt" -> LET r == TLCEval(Run(inp, p.p, st)) IN IF Stops(r) THEN r ELSE R("ok", r.st)
    [] o = "rep" -> RepeatFrom(inp, p.p, st, 0)
    [] o = "seq" ->
         LET r == TLCEval(Run(inp, p.p, Snapshot(st))) IN
         IF Stops(r) THEN r
         ELSE IF r.k = "ok" THEN R("ok", ClearSnap(r.st))
         ELSE R("err", Restore([r.st EXCEPT !.pos = st.pos, !.q = SubSeq(@, 1, Len(st.q))]))
    [] o = "look" ->
         LET r == TLCEval(Run(inp, p.p, Snapshot([st EXCEPT !.look = NewLook(st.look, p.pos)]))) IN
         IF Stops(r) THEN r
         ELSE LET back == Restore([r.st EXCEPT !.pos = st.pos, !.look = st.look]) IN
              R(IF (r.k = "ok") = p.pos THEN "ok" ELSE "err", back)
    [] o = "atomic" ->
         LET r == TLCEval(Run(inp, p.p, [st EXCEPT !.atom = p.m])) IN
         IF Stops(r) THEN r ELSE R(r.k, [r.st EXCEPT !.atom = st.atom])
    [] o = "push" ->
         LET r == TLCEval(Run(inp, p.p, st)) IN
         IF r.k = "ok" THEN R("ok", [r.st EXCEPT !.cur = Append(@, SubSeq(inp, st.pos, r.st.pos - 1))]) ELSE r
    [] o = "restore" ->
         LET r == TLCEval(Run(inp, p.p, Snapshot(st))) IN
         IF Stops(r) THEN r ELSE IF r.k = "ok" THEN R("ok", ClearSnap(r.st)) ELSE R("err", Restore(r.st))
    [] o = "rule" ->
         LET emits == st.look = "n" /\ st.atom # "A"
             s1 == IF emits THEN [st EXCEPT !.q = Append(@, [k |-> "S", p |-> st.pos, r |-> p.r, tag |-> ""])] ELSE st
             r  == TLCEval(Run(inp, p.p, s1))
         IN IF Stops(r) THEN r
            ELSE IF r.k = "ok"
                 THEN (IF r.st.look = "n" /\ r.st.atom # "A"
                       THEN R("ok", [r.st EXCEPT !.q = Append(@, [k |-> "E", p |-> r.st.pos, r |-> p.r, tag |-> ""])])
                       ELSE r)
                 ELSE (IF r.st.look = "n" /\ r.st.atom # "A" THEN R("err", [r.st EXCEPT !.q = SubSeq(@, 1, Len(st.q))]) ELSE r)

St0 == [pos |-> 1, q |-> <<>>, look |-> "n", atom |-> "N", cur |-> <<>>, saved |-> <<>>]

\* byte offsets, as the implementation reports positions
Width(c) == IF c < 128 THEN 1 ELSE IF c < 2048 THEN 2 ELSE IF c < 65536 THEN 3 ELSE 4
RECURSIVE ByteSum(_, _)
ByteSum(s, n) == IF n = 0 THEN 0 ELSE Width(s[n]) + ByteSum(s, n - 1)
ByteOff(s, p) == ByteSum(s, p - 1)

\* the observable projection of an outcome (C03): Ok/Err, position, tokens, stack, look-ahead, atomicity
Observable(inp, r) ==
  IF Stops(r) THEN [k |-> r.k]
  ELSE [k |-> r.k, pos |-> ByteOff(inp, r.st.pos),
        q |-> [i \in 1..Len(r.st.q) |-> [k |-> r.st.q[i].k, p |-> ByteOff(inp, r.st.q[i].p), r |-> r.st.q[i].r, tag |-> r.st.q[i].tag]],
        stk |-> r.st.cur, look |-> r.st.look, atom |-> r.st.atom]
===============================================================================
