---------------------------- MODULE PegSemantics ----------------------------
(***************************************************************************)
(* The semantics of pest's grammar language as a recursive definition.     *)
(*                                                                         *)
(* Ev(C, e, st) evaluates expression e in state st = [pos, stk, q] under   *)
(* context C and returns [k, pos, stk, q] with k one of                    *)
(*   "ok"    e matched; pos/stk/q are the state after the match            *)
(*   "fail"  e did not match                                               *)
(*   "abort" POP/PEEK on an empty stack (the documented ParserState panic) *)
(*   "div"   the evaluation re-entered an active (rule, position, stack,   *)
(*           mode) combination or iterated a repetition without consuming: *)
(*           the parse does not terminate                                  *)
(*   "fuel"  recursion deeper than C.fuel (a tool limit, never a verdict)  *)
(*                                                                         *)
(* C.op = FALSE gives EvalDoc, the *documented* semantics: ordered choice, *)
(* greedy non-backtracking repetition, predicates that consume and emit    *)
(* nothing, implicit WHITESPACE/COMMENT between the elements of ~ * + {}   *)
(* exactly when the dynamic mode is non-atomic, the four modifiers, the    *)
(* built-ins, and a stack that an expression changes only if it matches.   *)
(* C.op = TRUE gives EvalOp: identical except that a failing expression    *)
(* leaves the stack as the primitive operations of pest really leave it    *)
(* (POP stays popped on mismatch, POP_ALL pops up to the first mismatch,   *)
(* choice/optional/repetition/rule/PUSH do not roll the stack back; ~,     *)
(* predicates and RestoreOnErr do).  EvalOp on the optimizer's output must *)
(* equal EvalDoc on its input (property C05).                              *)
(*                                                                         *)
(* Positions are 1-based character indices into the input, a sequence of   *)
(* code points; tokens are trees [r, s, e, tag, c].  ByteTok converts to   *)
(* the byte offsets the implementation reports.                            *)
(***************************************************************************)
EXTENDS Naturals, Integers, Sequences

\* ------------------------------------------------------------------ characters
Width(c) == IF c < 128 THEN 1 ELSE IF c < 2048 THEN 2 ELSE IF c < 65536 THEN 3 ELSE 4

\* (recursion on an index, not on Tail: TLC passes arguments lazily and a chain of Tails overflows)
RECURSIVE ByteSum(_, _)
ByteSum(s, n) == IF n = 0 THEN 0 ELSE Width(s[n]) + ByteSum(s, n - 1)
ByteLen(s) == ByteSum(s, Len(s))
\* byte offset of character position p (1-based)
ByteOff(s, p) == ByteSum(s, p - 1)

LowerAscii(c) == IF c >= 65 /\ c <= 90 THEN c + 32 ELSE c

StartsWith(inp, p, s) ==
  /\ p + Len(s) - 1 <= Len(inp)
  /\ \A i \in 1..Len(s) : inp[p + i - 1] = s[i]

StartsWithInsens(inp, p, s) ==
  /\ p + Len(s) - 1 <= Len(inp)
  /\ \A i \in 1..Len(s) : LowerAscii(inp[p + i - 1]) = LowerAscii(s[i])

InRange(c, lo, hi) == c >= lo /\ c <= hi

AsciiBuiltins ==
  [ ASCII_DIGIT         |-> << <<48, 57>> >>,
    ASCII_NONZERO_DIGIT |-> << <<49, 57>> >>,
    ASCII_BIN_DIGIT     |-> << <<48, 49>> >>,
    ASCII_OCT_DIGIT     |-> << <<48, 55>> >>,
    ASCII_HEX_DIGIT     |-> << <<48, 57>>, <<97, 102>>, <<65, 70>> >>,
    ASCII_ALPHA_LOWER   |-> << <<97, 122>> >>,
    ASCII_ALPHA_UPPER   |-> << <<65, 90>> >>,
    ASCII_ALPHA         |-> << <<97, 122>>, <<65, 90>> >>,
    ASCII_ALPHANUMERIC  |-> << <<97, 122>>, <<65, 90>>, <<48, 57>> >>,
    ASCII               |-> << <<0, 127>> >> ]

StackBuiltins == {"PEEK", "PEEK_ALL", "POP", "POP_ALL", "DROP"}
Keywords == {"ANY", "SOI", "EOI"} \cup StackBuiltins    \* names a grammar cannot define

\* ------------------------------------------------------------------ states and results
\* h is the attempt history (only filled when C.hist): "in"/"out" events of every rule() call in
\* evaluation order, including those of failed branches (used by ErrorReport, property C08)
St(r) == [pos |-> r.pos, stk |-> r.stk, q |-> r.q, h |-> r.h]
Res(k, st) == [k |-> k, pos |-> st.pos, stk |-> st.stk, q |-> st.q, h |-> st.h]
Ok(st) == Res("ok", st)
\* failure at entry state st0; in operational mode the stack is left as `stk`
FailWith(C, st0, stk) == [k |-> "fail", pos |-> st0.pos, q |-> st0.q, h |-> st0.h,
                          stk |-> IF C.op THEN stk ELSE st0.stk]
Fail(st0) == Res("fail", st0)
\* the same, keeping the history accumulated by the sub-result r
FailH(st0, r) == [Fail(st0) EXCEPT !.h = r.h]
OkH(st0, r) == [Ok(st0) EXCEPT !.h = r.h]
WithH(st0, r) == [st0 EXCEPT !.h = r.h]
Stops(r) == r.k \notin {"ok", "fail"}       \* abort / div / fuel propagate unchanged

Advance(st, n) == [st EXCEPT !.pos = @ + n]
Front(s) == SubSeq(s, 1, Len(s) - 1)
Last(s) == s[Len(s)]

Has(C, n) == n \in DOMAIN C.G

\* ------------------------------------------------------------------ stack matching helpers
\* match the strings of `ss` one after the other starting at p; result position or 0
RECURSIVE MatchAll(_, _, _)
MatchAll(inp, p, ss) ==
  IF ss = <<>> THEN p
  ELSE IF StartsWith(inp, p, ss[1]) THEN MatchAll(inp, p + Len(ss[1]), Tail(ss)) ELSE 0

Rev(s) == [i \in 1..Len(s) |-> s[Len(s) + 1 - i]]

\* PEEK[lo..hi] index normalisation; -1 = out of range
NormIdx(i, len) == IF i > len THEN -1 ELSE IF i >= 0 THEN i ELSE IF len + i >= 0 THEN len + i ELSE -1

\* POP_ALL as the primitive really behaves: pop top-down, stop after the first mismatch
RECURSIVE PopAllOp(_, _, _)
PopAllOp(inp, p, stk) ==        \* returns <<ok, pos, stk>>
  IF stk = <<>> THEN <<TRUE, p, stk>>
  ELSE IF StartsWith(inp, p, Last(stk)) THEN PopAllOp(inp, p + Len(Last(stk)), Front(stk))
       ELSE <<FALSE, p, Front(stk)>>

\* earliest position >= p at which one of ss matches, else Len(inp)+1
RECURSIVE SkipUntil(_, _, _)
SkipUntil(inp, p, ss) ==
  IF p > Len(inp) THEN Len(inp) + 1
  ELSE IF \E i \in 1..Len(ss) : StartsWith(inp, p, ss[i]) THEN p
  ELSE SkipUntil(inp, p + 1, ss)

\* ------------------------------------------------------------------ desugaring of counted repetitions
Seq2(a, b) == [t |-> "seq", a |-> a, b |-> b]
RECURSIVE SeqN(_, _)
SeqN(a, n) == IF n <= 1 THEN a ELSE Seq2(a, SeqN(a, n - 1))
RECURSIVE MinN(_, _)
MinN(a, n) == IF n = 0 THEN [t |-> "rep", a |-> a] ELSE Seq2(a, MinN(a, n - 1))
RECURSIVE MaxN(_, _)
MaxN(a, n) == IF n <= 1 THEN [t |-> "opt", a |-> a] ELSE Seq2([t |-> "opt", a |-> a], MaxN(a, n - 1))
\* e{m,n}: n factors, the first m mandatory (this is also what e{3,2} means in pest: two mandatory)
RECURSIVE MinMaxN(_, _, _, _)
MinMaxN(a, i, m, n) ==
  LET f == IF i <= m THEN a ELSE [t |-> "opt", a |-> a]
  IN IF i >= n THEN f ELSE Seq2(f, MinMaxN(a, i + 1, m, n))

\* ------------------------------------------------------------------ the evaluator
RECURSIVE Ev(_, _, _), EvRule(_, _, _), SkipWs(_, _), RepLoop(_, _, _, _, _), Star(_, _, _)

\* With C.ent the history h is the ENTRY LOG instead: one record per evaluation of a rule reference - user rule,
\* built-in, implicit WHITESPACE / COMMENT - in evaluation order, failed branches included.  This is the sequence
\* of (rule, position) pairs a listener on the interpreting VM is told about (C17: "the breakpoint hits of the parse").
Enter(C, n, st) == IF C.ent THEN [st EXCEPT !.h = Append(@, [r |-> n, pos |-> st.pos])] ELSE st

\* zero or more calls of rule n (used by the implicit skip)
Star(C, n, st) ==
  LET r == EvRule(C, n, Enter(C, n, st)) IN
  IF r.k = "fail" THEN Ok([st EXCEPT !.stk = r.stk, !.h = r.h])
  ELSE IF r.k # "ok" THEN r
  ELSE IF r.pos = st.pos THEN Res(IF r.stk = st.stk THEN "div" ELSE "fuel", st)
  ELSE Star(C, n, St(r))

\* (COMMENT ~ WHITESPACE* )*
RECURSIVE CommentLoop(_, _)
CommentLoop(C, st) ==
  LET c == EvRule(C, "COMMENT", Enter(C, "COMMENT", st)) IN
  IF c.k = "fail" THEN OkH(st, c)
  ELSE IF c.k # "ok" THEN c
  ELSE LET w == Star(C, "WHITESPACE", St(c)) IN
       IF w.k # "ok" THEN w
       ELSE IF w.pos = st.pos THEN Res(IF w.stk = st.stk THEN "div" ELSE "fuel", st)
       ELSE CommentLoop(C, St(w))

\* the implicit skip between the elements of ~ * + {..}: only in non-atomic mode
SkipWs(C, st) ==
  IF C.mode # "N" THEN Ok(st)
  ELSE IF Has(C, "WHITESPACE") /\ Has(C, "COMMENT")
       THEN LET w == Star(C, "WHITESPACE", st) IN
            IF w.k # "ok" THEN w ELSE CommentLoop(C, St(w))
  ELSE IF Has(C, "WHITESPACE") THEN Star(C, "WHITESPACE", st)
  ELSE IF Has(C, "COMMENT") THEN Star(C, "COMMENT", st)
  ELSE Ok(st)

\* iterations 2.. of a repetition (first = FALSE) or all of them (first = TRUE).
\* nz counts consecutive iterations that consumed nothing but changed the stack: an iteration
\* that changes neither can never stop (div); a long run of stack-only iterations (e.g.
\* (PUSH(""))* grows the stack for ever) is cut off as "fuel", which is never compared.
RepLoop(C, a, st, first, nz) ==
  LET s1 == IF first THEN Ok(st) ELSE SkipWs(C, st) IN
  IF s1.k # "ok" THEN s1
  ELSE LET r == Ev(C, a, St(s1)) IN
       IF r.k = "fail"
       THEN (IF first THEN Ok([st EXCEPT !.stk = r.stk, !.h = r.h])   \* optional{e ..}: no roll-back of the stack
                      ELSE OkH(st, r))                                \* sequence{skip ~ e}: everything rolled back
       ELSE IF r.k # "ok" THEN r
       ELSE IF r.pos = st.pos /\ r.stk = st.stk THEN Res("div", st)
       ELSE IF r.pos = st.pos /\ nz >= 6 THEN Res("fuel", st)
       ELSE RepLoop(C, a, St(r), FALSE, IF r.pos = st.pos THEN nz + 1 ELSE 0)

EvRule(C, n, st) ==
  LET r   == C.G[n]
      key == <<n, st.pos, st.stk, C.mode, C.la>>
  IN
  IF key \in C.act THEN Res("div", st)
  ELSE IF C.fuel = 0 THEN Res("fuel", st)
  ELSE
  LET special == n \in {"WHITESPACE", "COMMENT"}
      \* $ and ! switch the mode before the rule's own token is decided
      tokMode == IF r.ty = "$" THEN "C" ELSE IF r.ty = "!" THEN "N" ELSE C.mode
      inner   == IF special THEN (IF r.ty = "$" THEN "C" ELSE "A")
                 ELSE IF r.ty = "@" THEN "A" ELSE IF r.ty = "$" THEN "C"
                 ELSE IF r.ty = "!" THEN "N" ELSE C.mode
      emits   == r.ty # "_" /\ tokMode # "A" /\ ~C.la
      \* a rule() call is made for every non-silent rule; it is reportable unless made in atomic mode
      logs    == C.hist /\ r.ty # "_"
      st1     == IF logs THEN [st EXCEPT !.h = Append(@, [e |-> "in", r |-> n, pos |-> st.pos, neg |-> C.neg,
                                                         rep |-> tokMode # "A"])]
                 ELSE st
      C1      == [C EXCEPT !.mode = inner, !.act = @ \cup {key}, !.fuel = @ - 1]
      res0    == Ev(C1, r.e, IF emits THEN [st1 EXCEPT !.q = <<>>] ELSE st1)
      res     == IF logs /\ res0.k \in {"ok", "fail"}
                 THEN [res0 EXCEPT !.h = Append(@, [e |-> "out", ok |-> res0.k = "ok"])] ELSE res0
  IN IF res.k = "fail" THEN [FailWith(C, st, res.stk) EXCEPT !.h = res.h]
     ELSE IF res.k # "ok" THEN res
     ELSE IF emits
          THEN [res EXCEPT !.q = Append(st.q, [r |-> n, s |-> st.pos, e |-> res.pos, tag |-> "", c |-> res.q])]
          ELSE res

EvBuiltin(C, n, st) ==
  LET inp == C.inp  p == st.pos IN
  CASE n = "ANY" -> IF p <= Len(inp) THEN Ok(Advance(st, 1)) ELSE Fail(st)
    [] n = "SOI" -> IF p = 1 THEN Ok(st) ELSE Fail(st)
    [] n = "EOI" -> LET hst == IF C.hist
                               THEN [st EXCEPT !.h = @ \o << [e |-> "in", r |-> "EOI", pos |-> p, neg |-> C.neg, rep |-> C.mode # "A"],
                                                             [e |-> "out", ok |-> p = Len(inp) + 1] >>]
                               ELSE st
                    IN IF p = Len(inp) + 1
                    THEN (IF C.mode # "A" /\ ~C.la
                          THEN Ok([hst EXCEPT !.q = Append(@, [r |-> "EOI", s |-> p, e |-> p, tag |-> "", c |-> <<>>])])
                          ELSE Ok(hst))
                    ELSE Fail(hst)
    [] n = "NEWLINE" -> IF StartsWith(inp, p, <<10>>) THEN Ok(Advance(st, 1))
                        ELSE IF StartsWith(inp, p, <<13, 10>>) THEN Ok(Advance(st, 2))
                        ELSE IF StartsWith(inp, p, <<13>>) THEN Ok(Advance(st, 1))
                        ELSE Fail(st)
    [] n = "PEEK" -> IF st.stk = <<>> THEN Res("abort", st)
                     ELSE IF StartsWith(inp, p, Last(st.stk)) THEN Ok(Advance(st, Len(Last(st.stk))))
                     ELSE Fail(st)
    [] n = "POP"  -> IF st.stk = <<>> THEN Res("abort", st)
                     ELSE IF StartsWith(inp, p, Last(st.stk))
                          THEN Ok([st EXCEPT !.pos = p + Len(Last(st.stk)), !.stk = Front(st.stk)])
                          ELSE FailWith(C, st, Front(st.stk))
    [] n = "PEEK_ALL" -> LET m == MatchAll(inp, p, Rev(st.stk)) IN
                         IF m = 0 THEN Fail(st) ELSE Ok([st EXCEPT !.pos = m])
    [] n = "POP_ALL" -> LET m == PopAllOp(inp, p, st.stk) IN
                        IF m[1] THEN Ok([st EXCEPT !.pos = m[2], !.stk = <<>>])
                        ELSE FailWith(C, st, m[3])
    [] n = "DROP" -> IF st.stk = <<>> THEN Fail(st) ELSE Ok([st EXCEPT !.stk = Front(@)])
    [] n \in DOMAIN AsciiBuiltins ->
         IF p <= Len(inp) /\ \E i \in 1..Len(AsciiBuiltins[n]) :
                               InRange(inp[p], AsciiBuiltins[n][i][1], AsciiBuiltins[n][i][2])
         THEN Ok(Advance(st, 1)) ELSE Fail(st)
    [] OTHER -> \* a Unicode property: an uninterpreted predicate supplied with the run
         IF p <= Len(inp) /\ n \in DOMAIN C.uni /\ \E i \in 1..Len(C.uni[n]) : C.uni[n][i] = inp[p]
         THEN Ok(Advance(st, 1)) ELSE Fail(st)

Ev(C, e, st) ==
  LET inp == C.inp  p == st.pos  t == e.t IN
  CASE t = "str"   -> IF StartsWith(inp, p, e.s) THEN Ok(Advance(st, Len(e.s))) ELSE Fail(st)
    [] t = "ins"   -> IF StartsWithInsens(inp, p, e.s) THEN Ok(Advance(st, Len(e.s))) ELSE Fail(st)
    [] t = "range" -> IF p <= Len(inp) /\ InRange(inp[p], e.lo, e.hi) THEN Ok(Advance(st, 1)) ELSE Fail(st)
    [] t = "id"    -> IF e.n \in Keywords THEN EvBuiltin(C, e.n, Enter(C, e.n, st))
                      ELSE IF Has(C, e.n) THEN EvRule(C, e.n, Enter(C, e.n, st))
                      ELSE EvBuiltin(C, e.n, Enter(C, e.n, st))
    [] t = "peek"  ->
         LET len == Len(st.stk)
             lo  == NormIdx(e.lo, len)
             hi  == IF e.open THEN len ELSE NormIdx(e.hi, len)
         IN IF lo < 0 \/ hi < 0 THEN Fail(st)
            ELSE IF hi <= lo THEN Ok(st)
            ELSE LET m == MatchAll(inp, p, SubSeq(st.stk, lo + 1, hi)) IN
                 IF m = 0 THEN Fail(st) ELSE Ok([st EXCEPT !.pos = m])
    [] t = "and"   -> LET r == Ev([C EXCEPT !.la = TRUE], e.a, st) IN
                      IF Stops(r) THEN r ELSE IF r.k = "ok" THEN OkH(st, r) ELSE FailH(st, r)
    [] t = "not"   -> LET r == Ev([C EXCEPT !.la = TRUE, !.neg = ~@], e.a, st) IN
                      IF Stops(r) THEN r ELSE IF r.k = "ok" THEN FailH(st, r) ELSE OkH(st, r)
    [] t = "seq"   ->
         LET r1 == Ev(C, e.a, st) IN
         IF Stops(r1) THEN r1
         ELSE IF r1.k = "fail" THEN FailH(st, r1)
         ELSE LET r2 == SkipWs(C, St(r1)) IN
              IF r2.k # "ok" THEN r2
              ELSE LET r3 == Ev(C, e.b, St(r2)) IN
                   IF r3.k = "fail" THEN FailH(st, r3) ELSE r3
    [] t = "alt"   ->
         LET r1 == Ev(C, e.a, st) IN
         IF r1.k = "fail" THEN Ev(C, e.b, [st EXCEPT !.stk = r1.stk, !.h = r1.h]) ELSE r1
    [] t = "opt"   ->
         LET r1 == Ev(C, e.a, st) IN
         IF r1.k = "fail" THEN Ok([st EXCEPT !.stk = r1.stk, !.h = r1.h]) ELSE r1
    [] t = "rep"   -> RepLoop(C, e.a, st, TRUE, 0)
    [] t = "rep1"  ->
         IF C.extras
         THEN LET r1 == Ev(C, e.a, st) IN
              IF r1.k = "fail" THEN FailH(st, r1)
              ELSE IF r1.k # "ok" THEN r1
              ELSE RepLoop(C, e.a, St(r1), FALSE, 0)
         ELSE Ev(C, Seq2(e.a, [t |-> "rep", a |-> e.a]), st)
    [] t = "exact"  -> Ev(C, SeqN(e.a, e.n), st)
    [] t = "min"    -> Ev(C, MinN(e.a, e.n), st)
    [] t = "max"    -> Ev(C, MaxN(e.a, e.n), st)
    [] t = "minmax" -> Ev(C, MinMaxN(e.a, 1, e.m, e.n), st)
    [] t = "push"  ->
         LET r == Ev(C, e.a, st) IN
         IF r.k = "ok" THEN [r EXCEPT !.stk = Append(@, SubSeq(inp, p, r.pos - 1))] ELSE r
    [] t = "pushlit" -> Ok([st EXCEPT !.stk = Append(@, e.s)])
    [] t = "tag"   -> Ev(C, e.a, st)      \* node tags (grammar-extras) label pairs; they are outside what
                                          \* C01 / C05 state, so the semantics is transparent to them
    [] t = "skip"  -> Ok([st EXCEPT !.pos = SkipUntil(inp, p, e.ss)])
    [] t = "restore" ->
         LET r == Ev(C, e.a, st) IN
         IF r.k = "fail" THEN FailH(st, r) ELSE r

\* ------------------------------------------------------------------ top level
Ctx(G, inp, uni, extras, op, fuel) ==
  [G |-> G, inp |-> inp, uni |-> uni, extras |-> extras, op |-> op,
   mode |-> "N", la |-> FALSE, neg |-> FALSE, hist |-> FALSE, ent |-> FALSE, act |-> {}, fuel |-> fuel]

St0 == [pos |-> 1, stk |-> <<>>, q |-> <<>>, h |-> <<>>]

\* what Parser::parse(start, inp) denotes
Parse(G, inp, uni, extras, op, fuel, start) ==
  Ev(Ctx(G, inp, uni, extras, op, fuel), [t |-> "id", n |-> start], St0)

\* the same with the attempt history recorded in the result's h
ParseH(G, inp, uni, extras, fuel, start) ==
  Ev([Ctx(G, inp, uni, extras, FALSE, fuel) EXCEPT !.hist = TRUE], [t |-> "id", n |-> start], St0)

\* the attempt history of a run over the OPTIMIZED rules (what the back-ends execute)
ParseHO(G, inp, uni, extras, fuel, start) ==
  Ev([Ctx(G, inp, uni, extras, TRUE, fuel) EXCEPT !.hist = TRUE], [t |-> "id", n |-> start], St0)

\* the same with the entry log recorded in the result's h (op = TRUE: over the optimized rules the VM runs)
ParseE(G, inp, uni, extras, op, fuel, start) ==
  Ev([Ctx(G, inp, uni, extras, op, fuel) EXCEPT !.ent = TRUE], [t |-> "id", n |-> start], St0)

RECURSIVE ByteTok(_, _)
ByteTok(inp, tk) ==
  [r |-> tk.r, s |-> ByteOff(inp, tk.s), e |-> ByteOff(inp, tk.e), tag |-> tk.tag,
   c |-> [i \in 1..Len(tk.c) |-> ByteTok(inp, tk.c[i])]]

ByteToks(inp, q) == [i \in 1..Len(q) |-> ByteTok(inp, q[i])]

\* the observable outcome, in the shape the harness records it
Outcome(inp, r) ==
  IF r.k = "ok"
  THEN [k |-> "ok", end |-> ByteOff(inp, r.pos), toks |-> ByteToks(inp, r.q), stk |-> r.stk]
  ELSE [k |-> r.k]
=============================================================================
