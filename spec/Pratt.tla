--------------------------------- MODULE Pratt ---------------------------------
(***************************************************************************)
(* Implementation-shaped transcriptions for C13: the Pratt loop of         *)
(* pest/src/pratt_parser.rs (expr / nud / led / lbp with precedences in    *)
(* steps of 10, prec - 1 for right-associative and prefix operators) and   *)
(* the climbing loop of the deprecated pest/src/prec_climber.rs.  TLC      *)
(* shows (MC_Pratt) that both schemes build the ShuntingYard tree; the     *)
(* verdict about the code always comes from ShuntingYard.                  *)
(***************************************************************************)
EXTENDS ShuntingYard

Prec(T, k) == 10 * (T[k].lvl + 1)       \* PREC_STEP = 10, the first level gets 20

RECURSIVE PExpr(_, _, _, _), PLoop(_, _, _, _, _)
\* returns <<tree, next index>>
PExpr(T, toks, i, rbp) ==
  LET k == toks[i] IN
  IF k = 0 THEN PLoop(T, toks, [t |-> "n", p |-> i], i + 1, rbp)
  ELSE \* prefix (anything else is a malformed sequence)
       LET r == PExpr(T, toks, i + 1, Prec(T, k) - 1) IN
       PLoop(T, toks, [t |-> "pre", k |-> k, p |-> i, a |-> r[1]], r[2], rbp)

PLoop(T, toks, lhs, i, rbp) ==
  IF i > Len(toks) THEN <<lhs, i>>
  ELSE LET k == toks[i] IN
       IF rbp < Prec(T, k)
       THEN IF T[k].affix = "post"
            THEN PLoop(T, toks, [t |-> "post", k |-> k, p |-> i, a |-> lhs], i + 1, rbp)
            ELSE LET r == PExpr(T, toks, i + 1, IF T[k].affix = "inl" THEN Prec(T, k) ELSE Prec(T, k) - 1) IN
                 PLoop(T, toks, [t |-> "in", k |-> k, p |-> i, a |-> lhs, b |-> r[1]], r[2], rbp)
       ELSE <<lhs, i>>

PrattTree(T, toks) == PExpr(T, toks, 1, 0)[1]

\* ---- the deprecated PrecClimber: infix only, precedence = level, starting at 1
RECURSIVE ClimbRec(_, _, _, _, _), ClimbRhs(_, _, _, _, _)
ClimbRec(T, toks, lhs, minPrec, i) ==
  IF i > Len(toks) THEN <<lhs, i>>
  ELSE LET k == toks[i]  prec == T[k].lvl IN
       IF prec >= minPrec
       THEN LET r == ClimbRhs(T, toks, [t |-> "n", p |-> i + 1], prec, i + 2) IN
            ClimbRec(T, toks, [t |-> "in", k |-> k, p |-> i, a |-> lhs, b |-> r[1]], minPrec, r[2])
       ELSE <<lhs, i>>
ClimbRhs(T, toks, rhs, prec, i) ==
  IF i > Len(toks) THEN <<rhs, i>>
  ELSE LET k == toks[i]  np == T[k].lvl IN
       IF np > prec \/ (T[k].affix = "inr" /\ np = prec)
       THEN LET r == ClimbRec(T, toks, rhs, np, i) IN ClimbRhs(T, toks, r[1], prec, r[2])
       ELSE <<rhs, i>>
ClimbTree(T, toks) == ClimbRec(T, toks, [t |-> "n", p |-> 1], 0, 2)[1]

\* ---- registration: a table is built by a SEQUENCE of registrations (PrattParser::op inserts every member of
\* the chain into a map, a ConstPrattParser is searched from the back): when a rule is registered more than once
\* the LAST registration is the one in force.  R is a sequence of [rule, affix, lvl] in registration order.
LastReg(R, r) == CHOOSE i \in DOMAIN R : R[i].rule = r /\ \A j \in DOMAIN R : R[j].rule = r => j <= i
Registered(R, K) == [r \in 1..K |-> [affix |-> R[LastReg(R, r)].affix, lvl |-> R[LastReg(R, r)].lvl]]

\* tables the deprecated climber is specified for: infix only, one associativity per level
ClimberTable(T) ==
  /\ \A k \in DOMAIN T : T[k].affix \in {"inl", "inr"}
  /\ \A k, j \in DOMAIN T : T[k].lvl = T[j].lvl => T[k].affix = T[j].affix
===============================================================================
