----------------------------- MODULE ShuntingYard -----------------------------
(***************************************************************************)
(* Property-level model of C13: the classical operator-precedence          *)
(* (two-stack, "shunting-yard") algorithm with the binding powers the      *)
(* property names.  A table maps an operator id to [affix, lvl] with affix *)
(* in {"pre", "post", "inl", "inr"}.  An operator of level p binds what is *)
(* on its left with power 10p and what is on its right with power 10p if   *)
(* it is a left-associative infix operator and 10p - 1 ("just below p") if *)
(* it is right-associative or prefix.  A token is 0 (operand) or an        *)
(* operator id.  Trees: [t |-> "n", p], [t |-> "pre"/"post", k, p, a],      *)
(* [t |-> "in", k, p, a, b] where p is the token's position.               *)
(***************************************************************************)
EXTENDS Naturals, Sequences

Lbp(T, k) == 10 * T[k].lvl
Rbp(T, k) == IF T[k].affix = "inl" THEN 10 * T[k].lvl ELSE 10 * T[k].lvl - 1

Front(s) == SubSeq(s, 1, Len(s) - 1)
Last(s) == s[Len(s)]

\* apply the operator on top of the operator stack
Reduce1(T, st) ==
  LET o == Last(st.ops) IN
  IF T[o.k].affix = "pre"
  THEN [out |-> Append(Front(st.out), [t |-> "pre", k |-> o.k, p |-> o.p, a |-> Last(st.out)]),
        ops |-> Front(st.ops)]
  ELSE LET r == Last(st.out)  l == Last(Front(st.out)) IN
       [out |-> Append(Front(Front(st.out)), [t |-> "in", k |-> o.k, p |-> o.p, a |-> l, b |-> r]),
        ops |-> Front(st.ops)]

\* reduce while the pending operator binds its right side at least as strongly as `lbp`
RECURSIVE ReduceWhile(_, _, _)
ReduceWhile(T, st, lbp) ==
  IF st.ops # <<>> /\ Rbp(T, Last(st.ops).k) >= lbp THEN ReduceWhile(T, Reduce1(T, st), lbp) ELSE st

RECURSIVE SYLoop(_, _, _, _)
SYLoop(T, toks, i, st) ==
  IF i > Len(toks) THEN ReduceWhile(T, st, 0).out[1]
  ELSE LET k == toks[i] IN
       IF k = 0 THEN SYLoop(T, toks, i + 1, [st EXCEPT !.out = Append(@, [t |-> "n", p |-> i])])
       ELSE IF T[k].affix = "pre" THEN SYLoop(T, toks, i + 1, [st EXCEPT !.ops = Append(@, [k |-> k, p |-> i])])
       ELSE LET s1 == ReduceWhile(T, st, Lbp(T, k)) IN
            IF T[k].affix = "post"
            THEN SYLoop(T, toks, i + 1,
                        [s1 EXCEPT !.out = Append(Front(@), [t |-> "post", k |-> k, p |-> i, a |-> Last(s1.out)])])
            ELSE SYLoop(T, toks, i + 1, [s1 EXCEPT !.ops = Append(@, [k |-> k, p |-> i])])

ShuntingYard(T, toks) == SYLoop(T, toks, 1, [out |-> <<>>, ops |-> <<>>])

\* every token used exactly once, operands and operators in their original order
RECURSIVE InOrder(_)
InOrder(tr) ==
  CASE tr.t = "n"    -> <<tr.p>>
    [] tr.t = "pre"  -> <<tr.p>> \o InOrder(tr.a)
    [] tr.t = "post" -> InOrder(tr.a) \o <<tr.p>>
    [] tr.t = "in"   -> InOrder(tr.a) \o <<tr.p>> \o InOrder(tr.b)
OncePreservingOrder(tr, n) == InOrder(tr) = [i \in 1..n |-> i]

\* well-formed token sequences: prefix* operand postfix* (infix prefix* operand postfix*)*
RECURSIVE WF(_, _, _, _)
WF(T, toks, i, expectOperand) ==
  IF i > Len(toks) THEN ~expectOperand
  ELSE LET k == toks[i] IN
       IF expectOperand
       THEN (k = 0 /\ WF(T, toks, i + 1, FALSE)) \/ (k # 0 /\ T[k].affix = "pre" /\ WF(T, toks, i + 1, TRUE))
       ELSE k # 0 /\ ((T[k].affix = "post" /\ WF(T, toks, i + 1, FALSE))
                      \/ (T[k].affix \in {"inl", "inr"} /\ WF(T, toks, i + 1, TRUE)))
WellFormed(T, toks) == toks # <<>> /\ WF(T, toks, 1, TRUE)
===============================================================================
