--------------------------------- MODULE Stack ---------------------------------
(***************************************************************************)
(* Implementation-shaped model of pest/src/stack.rs: the three vectors     *)
(* cache, popped, lengths and the same index arithmetic (the `min` in      *)
(* clear_snapshot, the drain of popped_start .. popped_start+popped_count  *)
(* -parent_popped, the reversed replay in restore).  IOk states that every *)
(* subtraction stays >= 0 and every drain/truncate range is inside its     *)
(* vector, i.e. the Rust code cannot panic at that operation.              *)
(* This module is a transcription: it is used to show the *scheme* refines *)
(* StackNaive (MC_Stack) and to steer generation; verdicts about the code  *)
(* always come from StackNaive.                                            *)
(***************************************************************************)
EXTENDS Sequences, Naturals, StackNaive

IInit == [cache |-> <<>>, popped |-> <<>>, lengths |-> <<>>]

Rev(s) == [k \in 1..Len(s) |-> s[Len(s) + 1 - k]]
MinOf(a, b) == IF a <= b THEN a ELSE b
Top(s) == s[Len(s)]
\* remove elements with 0-based index in [a, b) (Vec::drain(a..b))
Drain(s, a, b) == SubSeq(s, 1, a) \o SubSeq(s, b + 1, Len(s))

IPop(i) ==
  IF i.cache = <<>> THEN i
  ELSE LET len == Len(i.cache)
           c1  == Front(i.cache)
       IN IF i.lengths # <<>> /\ len = Top(i.lengths)[2]
          THEN [cache   |-> c1,
                popped  |-> Append(i.popped, Top(i.cache)),
                lengths |-> [i.lengths EXCEPT ![Len(i.lengths)] = <<@[1], @[2] - 1>>]]
          ELSE [i EXCEPT !.cache = c1]

IClearOk(i) ==
  i.lengths = <<>> \/
  LET len == Top(i.lengths)[1]  rem == Top(i.lengths)[2]
      rest == Front(i.lengths)
  IN /\ len >= rem
     /\ Len(i.popped) >= len - rem
     /\ rest # <<>> =>
          LET prem   == Top(rest)[2]
              merged == MinOf(prem, rem)
              ppop   == prem - merged
          IN (len - rem) >= ppop

IClear(i) ==
  IF i.lengths = <<>> THEN i
  ELSE LET len == Top(i.lengths)[1]  rem == Top(i.lengths)[2]
           cnt == len - rem
           rest == Front(i.lengths)
       IN IF rest # <<>>
          THEN LET prem   == Top(rest)[2]
                   merged == MinOf(prem, rem)
                   ppop   == prem - merged
                   start  == Len(i.popped) - cnt
               IN [cache   |-> i.cache,
                   popped  |-> Drain(i.popped, start, start + cnt - ppop),
                   lengths |-> [rest EXCEPT ![Len(rest)] = <<@[1], merged>>]]
          ELSE [cache |-> i.cache,
                popped |-> SubSeq(i.popped, 1, Len(i.popped) - cnt),
                lengths |-> rest]

IRestoreOk(i) ==
  i.lengths = <<>> \/
  LET len == Top(i.lengths)[1]  rem == Top(i.lengths)[2]
  IN len > rem => Len(i.popped) >= len - rem

IRestore(i) ==
  IF i.lengths = <<>> THEN [i EXCEPT !.cache = <<>>]
  ELSE LET len == Top(i.lengths)[1]  rem == Top(i.lengths)[2]
           c1  == IF rem < Len(i.cache) THEN SubSeq(i.cache, 1, rem) ELSE i.cache
       IN IF len > rem
          THEN LET newlen == Len(i.popped) - (len - rem)
               IN [cache   |-> c1 \o Rev(SubSeq(i.popped, newlen + 1, Len(i.popped))),
                   popped  |-> SubSeq(i.popped, 1, newlen),
                   lengths |-> Front(i.lengths)]
          ELSE [cache |-> c1, popped |-> i.popped, lengths |-> Front(i.lengths)]

IApply(i, op) ==
  CASE op.o = "push"     -> [i EXCEPT !.cache = Append(i.cache, op.v)]
    [] op.o = "pop"      -> IPop(i)
    [] op.o = "peek"     -> i
    [] op.o = "snapshot" -> [i EXCEPT !.lengths = Append(i.lengths, <<Len(i.cache), Len(i.cache)>>)]
    [] op.o = "clear"    -> IClear(i)
    [] op.o = "restore"  -> IRestore(i)

IOk(i, op) ==
  CASE op.o = "clear"   -> IClearOk(i)
    [] op.o = "restore" -> IRestoreOk(i)
    [] OTHER            -> TRUE

IRet(i, op) ==
  IF op.o \in {"pop", "peek"}
  THEN IF i.cache = <<>> THEN NoneVal ELSE Top(i.cache)
  ELSE UnitVal

\* The structural invariants documented in stack.rs
IWellFormed(i) ==
  /\ \A k \in 1..Len(i.lengths) : i.lengths[k][1] >= i.lengths[k][2]
  /\ LET RECURSIVE Sum(_)
         Sum(k) == IF k = 0 THEN 0 ELSE (i.lengths[k][1] - i.lengths[k][2]) + Sum(k - 1)
     IN Len(i.popped) <= Sum(Len(i.lengths))
  /\ i.lengths # <<>> => Top(i.lengths)[2] <= Len(i.cache)
===============================================================================
