------------------------------ MODULE StackNaive ------------------------------
(***************************************************************************)
(* Property-level model of pest's backtracking stack (property C11).       *)
(* It says nothing about how pest implements the stack: a snapshot saves a *)
(* full copy, restore reinstates the latest copy (or empties the stack     *)
(* when there is none), clear discards the latest copy.                    *)
(* Written as pure functions over a state record so that the same          *)
(* definitions serve the refinement check (MC_Stack), behaviour generation *)
(* (MC_StackGen), trace validation (Trace_Stack) and the parser-state      *)
(* machine (ParserStateMachine).                                           *)
(***************************************************************************)
EXTENDS Sequences, Naturals

NoneVal == "none"      \* what pop/peek return on an empty stack (Option::None)
UnitVal == "unit"      \* what the other operations return

OpNames == {"push", "pop", "peek", "snapshot", "clear", "restore"}

NInit == [cur |-> <<>>, saved |-> <<>>]

Front(s) == SubSeq(s, 1, Len(s) - 1)

NApply(n, op) ==
  CASE op.o = "push"     -> [n EXCEPT !.cur = Append(n.cur, op.v)]
    [] op.o = "pop"      -> IF n.cur = <<>> THEN n ELSE [n EXCEPT !.cur = Front(n.cur)]
    [] op.o = "peek"     -> n
    [] op.o = "snapshot" -> [n EXCEPT !.saved = Append(n.saved, n.cur)]
    [] op.o = "clear"    -> IF n.saved = <<>> THEN n ELSE [n EXCEPT !.saved = Front(n.saved)]
    [] op.o = "restore"  -> IF n.saved = <<>> THEN [n EXCEPT !.cur = <<>>]
                            ELSE [cur |-> n.saved[Len(n.saved)], saved |-> Front(n.saved)]

NRet(n, op) ==
  IF op.o \in {"pop", "peek"}
  THEN IF n.cur = <<>> THEN NoneVal ELSE n.cur[Len(n.cur)]
  ELSE UnitVal
===============================================================================
