------------------------------- MODULE TokenTree -------------------------------
(***************************************************************************)
(* Property-level model for C04.  A token tree is a forest of nodes        *)
(* [r, s, e, tag, c]: rule, byte span [s, e), node tag ("" = none),        *)
(* children.  Everything a Pairs / Pair / FlatPairs / Tokens value can     *)
(* show is a function of that one forest; iteration from both ends is a    *)
(* double-ended queue over the corresponding list.                         *)
(***************************************************************************)
EXTENDS Naturals, Sequences

Item(n) == [r |-> n.r, s |-> n.s, e |-> n.e, tag |-> n.tag]
Items(f) == [i \in 1..Len(f) |-> Item(f[i])]

RECURSIVE Flat(_)
Flat(f) == IF f = <<>> THEN <<>> ELSE <<f[1]>> \o Flat(f[1].c) \o Flat(Tail(f))

RECURSIVE Toks(_)
Toks(f) == IF f = <<>> THEN <<>>
           ELSE <<[k |-> "S", r |-> f[1].r, p |-> f[1].s]>> \o Toks(f[1].c) \o <<[k |-> "E", r |-> f[1].r, p |-> f[1].e]>>
                \o Toks(Tail(f))

\* the forest without / with tags, as the textual views show it
RECURSIVE Plain(_)
Plain(f) == [i \in 1..Len(f) |-> [r |-> f[i].r, s |-> f[i].s, e |-> f[i].e, c |-> Plain(f[i].c)]]
RECURSIVE Tagged(_)
Tagged(f) == [i \in 1..Len(f) |-> [r |-> f[i].r, s |-> f[i].s, e |-> f[i].e, tag |-> f[i].tag, c |-> Tagged(f[i].c)]]

\* a well-formed forest inside [lo, hi] with all positions in B (the UTF-8 boundaries)
RECURSIVE WellFormed(_, _, _, _)
WellFormed(f, lo, hi, B) ==
  f = <<>> \/
  LET n == f[1] IN
  /\ n.s \in B /\ n.e \in B /\ lo <= n.s /\ n.s <= n.e /\ n.e <= hi
  /\ WellFormed(n.c, n.s, n.e, B)
  /\ WellFormed(Tail(f), n.e, hi, B)

\* a token stream is well formed iff it is Toks of a well-formed forest; stated directly:
RECURSIVE Balanced(_, _, _)
Balanced(q, i, open) ==      \* open: stack of [r, p] of unmatched Start tokens
  IF i > Len(q) THEN open = <<>>
  ELSE IF q[i].k = "S" THEN Balanced(q, i + 1, Append(open, [r |-> q[i].r, p |-> q[i].p]))
  ELSE open # <<>> /\ open[Len(open)].r = q[i].r /\ open[Len(open)].p <= q[i].p
       /\ Balanced(q, i + 1, SubSeq(open, 1, Len(open) - 1))
WellFormedStream(q, B) ==
  /\ Balanced(q, 1, <<>>)
  /\ \A i \in 1..Len(q) : q[i].p \in B
  /\ \A i \in 1..(Len(q) - 1) : q[i].p <= q[i + 1].p

\* ---- the double-ended queue every iterator must behave as
\* ops: sequence of "N" / "B"; result: sequence of steps [ret, len] where ret is <<>> or <<x>>
RECURSIVE Deque(_, _, _, _)
Deque(L, lo, hi, ops) ==
  IF ops = <<>> THEN <<>>
  ELSE IF lo > hi THEN <<[ret |-> <<>>, len |-> 0, front |-> <<>>]>> \o Deque(L, lo, hi, Tail(ops))
  ELSE IF ops[1] = "N"
       THEN <<[ret |-> <<L[lo]>>, len |-> hi - lo, front |-> IF lo + 1 <= hi THEN <<L[lo + 1]>> ELSE <<>>]>>
            \o Deque(L, lo + 1, hi, Tail(ops))
       ELSE <<[ret |-> <<L[hi]>>, len |-> hi - lo, front |-> IF lo <= hi - 1 THEN <<L[lo]>> ELSE <<>>]>>
            \o Deque(L, lo, hi - 1, Tail(ops))
===============================================================================
