---------------------------- MODULE Trace_Backends ----------------------------
(***************************************************************************)
(* C02: the generated parser and the interpreting VM agree on every        *)
(* grammar and input.  Each line of the batch is one grammar; every case   *)
(* carries the outcome of the derived parser (`gen`, compiled at check     *)
(* time from the same text by #[derive(Parser)]) and of the VM (`vm`):     *)
(* tokens with tags + end + final stack on success; error position +       *)
(* expected + unexpected rule names on failure.  They must be equal; where *)
(* the expected outcome of the documented semantics is known (`exp`, from  *)
(* MC_PegGen) or the grammar lies in EvalDoc's domain (check = TRUE), both *)
(* must also agree with PegSemantics.                                      *)
(***************************************************************************)
EXTENDS PegSemantics, TLC, Json, IOUtils
VARIABLES k

Rec == ndJsonDeserialize(IOEnv.BATCH)
Fuel == 60
Has2(r, f) == f \in DOMAIN r

AgreeDoc(exp, got) ==
  CASE exp.k = "ok"    -> got.k = "ok" /\ got.toks = exp.toks /\ got.end = exp.end /\ got.stk = exp.stk
    [] exp.k = "fail"  -> got.k = "fail"
    [] exp.k = "abort" -> got.k = "panic" /\ got.empty_stack
    [] OTHER           -> TRUE

CheckCase(rec, c, i) ==
  LET same == c.vm = c.gen
      exp  == IF Has2(c, "exp") THEN c.exp
              ELSE IF rec.semantics
                   THEN Outcome(c.inp, Parse(rec.g, c.inp, rec.uni, rec.extras, FALSE, Fuel, c.start))
                   ELSE [k |-> "skip"]
      doc  == AgreeDoc(exp, c.vm) /\ AgreeDoc(exp, c.gen)
  IN IF same /\ doc THEN TRUE
     ELSE PrintT(<<"REJECTED", IF same THEN "semantics" ELSE "backends", rec.id,
                   ToJson([start |-> c.start, inp |-> c.inp, vm |-> c.vm, gen |-> c.gen, n |-> i])>>)

CheckRec(rec) == \A i \in 1..Len(rec.cases) : CheckCase(rec, rec.cases[i], i)

Init == k = 1
Next == k <= Len(Rec) /\ k' = k + 1
Spec == Init /\ [][Next]_k
Checked == k <= Len(Rec) => CheckRec(Rec[k])
==============================================================================
