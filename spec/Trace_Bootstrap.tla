----------------------------- MODULE Trace_Bootstrap -----------------------------
(***************************************************************************)
(* C14: the checked-in self-hosted parser of pest grammars                 *)
(* (pest_meta::parser::parse, generated once by the bootstrap crate), the  *)
(* VM running the CURRENT meta/src/grammar.pest through the current        *)
(* optimizer, and a parser freshly derived from that file at check time    *)
(* must agree on every text and every rule: acceptance, token tree, error  *)
(* position and expected/unexpected rule names.  For a sample of the cases *)
(* (doc = TRUE) the documented semantics (PegSemantics) of the AST of      *)
(* grammar.pest gives a fourth opinion on acceptance and tokens.           *)
(***************************************************************************)
EXTENDS PegSemantics, TLC, Json, IOUtils
VARIABLES k

Rec == ndJsonDeserialize(IOEnv.BATCH)
G == ndJsonDeserialize(IOEnv.GRAMMAR)[1]

AgreeDoc(exp, got) ==
  CASE exp.k = "ok"   -> got.k = "ok" /\ got.toks = exp.toks /\ got.end = exp.end
    [] exp.k = "fail" -> got.k = "fail"
    [] OTHER          -> TRUE

CheckCase(rec, c, i) ==
  LET same == c.checked_in = c.vm /\ c.vm = c.fresh
      doc  == IF c.doc THEN AgreeDoc(Outcome(c.inp, Parse(G, c.inp, <<>>, FALSE, FALSE, 300, c.start)), c.checked_in) ELSE TRUE
  IN IF same /\ doc THEN TRUE
     ELSE PrintT(<<"REJECTED", IF same THEN "semantics" ELSE "parsers", rec.id,
                   ToJson([start |-> c.start, inp |-> c.inp, checked_in |-> c.checked_in, vm |-> c.vm, fresh |-> c.fresh, n |-> i])>>)

CheckRec(rec) == \A i \in 1..Len(rec.cases) : CheckCase(rec, rec.cases[i], i)

Init == k = 1
Next == k <= Len(Rec) /\ k' = k + 1
Spec == Init /\ [][Next]_k
Checked == k <= Len(Rec) => CheckRec(Rec[k])
===============================================================================
