--------------------------- MODULE Trace_CallLimit ---------------------------
(* C12 trace validation: each line is one sweep recorded from the real parser. *)
EXTENDS CallLimit, TLC, Json, IOUtils
VARIABLES k

Rec == ndJsonDeserialize(IOEnv.BATCH)

CheckRec(rec) ==
  \* Enough (a limit above the number of calls needed completes) is not part of what the property
  \* states; it is reported as a note, never as a rejection
  IF Sound(rec.rinf, rec.sweep) /\ Monotone(rec.sweep)
  THEN (IF Enough(rec.calls_needed + 1, rec.rinf, rec.sweep) THEN TRUE
        ELSE PrintT(<<"NOTE", "limit above the calls needed does not complete", rec.id>>))
  ELSE LET i == FirstBad(rec.rinf, rec.sweep) IN
       PrintT(<<"REJECTED", "sweep", rec.id,
                ToJson([limit |-> IF i = 0 THEN 0 ELSE rec.sweep[i].l,
                        got |-> IF i = 0 THEN "does not complete with enough calls" ELSE rec.sweep[i].r,
                        unlimited |-> rec.rinf])>>)

Init == k = 1 /\ done = "none"
Next == k <= Len(Rec) /\ k' = k + 1 /\ UNCHANGED done
Spec == Init /\ [][Next]_<<k, done>>
Checked == k <= Len(Rec) => CheckRec(Rec[k])
==============================================================================
