----------------------------- MODULE Trace_Detail -----------------------------
(***************************************************************************)
(* C15: detailed error tracking is observationally transparent.  Each line *)
(* is one (grammar, start, input) parsed twice by the real parser, with    *)
(* set_error_detail(false) and (true).  `off` and `on` are the canonical   *)
(* observable results (tokens + end + stack, or error position + expected  *)
(* + unexpected rules, or PANIC); `detail` describes the extra attempt     *)
(* information of the `on` run.                                            *)
(***************************************************************************)
EXTENDS Naturals, Sequences, TLC, Json, IOUtils
VARIABLES k

Rec == ndJsonDeserialize(IOEnv.BATCH)

IsPanic(s) == Len(s) >= 5 /\ SubSeq(s, 1, 5) = "PANIC"

Transparent(rec) == rec.on = rec.off
\* turning detail on never makes a parse panic (a panic that also happens with detail off - the
\* documented empty-stack POP/PEEK - is not caused by it)
NoNewPanic(rec)  == rec.on_kind = "panic" => rec.off = rec.on
DetailOk(rec) ==
  rec.detail.has =>
    /\ rec.detail.max_position <= rec.detail.len
    /\ rec.detail.boundary
    /\ rec.detail.rendered
    /\ rec.detail.accessors
    /\ rec.detail.display
\* a failing parse run with detail on carries the attempt information
Present(rec) == rec.on_kind = "fail" => rec.detail.has

CheckRec(rec) ==
  IF Transparent(rec) /\ NoNewPanic(rec) /\ DetailOk(rec) /\ Present(rec) THEN TRUE
  ELSE PrintT(<<"REJECTED", "detail", rec.id,
                ToJson([off |-> rec.off, on |-> rec.on, detail |-> rec.detail])>>)

Init == k = 1
Next == k <= Len(Rec) /\ k' = k + 1
Spec == Init /\ [][Next]_k
Checked == k <= Len(Rec) => CheckRec(Rec[k])
==============================================================================
