----------------------------- MODULE Trace_Entries -----------------------------
(***************************************************************************)
(* C17, the parse itself: "the breakpoint hits of the parse" are the rule  *)
(* entries of the parse.  Each record is one grammar - the OPTIMIZED rules *)
(* the interpreting VM runs, exported from the real optimizer - with, per  *)
(* (start rule, input), the sequence of (rule, byte position) pairs a      *)
(* listener on the real VM was told about.  TLC evaluates the semantics    *)
(* over those rules with the entry log on (PegSemantics!ParseE: one record *)
(* per evaluation of a rule reference - user rule, built-in, implicit      *)
(* WHITESPACE / COMMENT - in evaluation order, failed branches included)   *)
(* and requires the two sequences to be equal.  Debugger.tla then takes    *)
(* such a sequence as its constant Entries.                                *)
(***************************************************************************)
EXTENDS PegSemantics, TLC, Json, IOUtils
VARIABLES k

Rec == ndJsonDeserialize(IOEnv.BATCH)
Fuel == 60

CheckCase(rec, c, i) ==
  LET r   == ParseE(rec.g, c.inp, rec.uni, rec.extras, TRUE, Fuel, c.start)
      exp == [j \in 1..Len(r.h) |-> [r |-> r.h[j].r, p |-> ByteOff(c.inp, r.h[j].pos)]]
  IN IF r.k \notin {"ok", "fail"}
     THEN PrintT(<<"SKIPPED", r.k, rec.id>>)
     ELSE IF exp = c.entries /\ c.k = r.k THEN TRUE
     ELSE PrintT(<<"REJECTED", "entries", rec.id,
                   ToJson([start |-> c.start, inp |-> c.inp, expected |-> exp, got |-> c.entries, model |-> r.k, real |-> c.k, n |-> i])>>)

CheckRec(rec) == \A i \in 1..Len(rec.cases) : CheckCase(rec, rec.cases[i], i)

Init == k = 1
Next == k <= Len(Rec) /\ k' = k + 1
Spec == Init /\ [][Next]_k

Checked == k <= Len(Rec) => CheckRec(Rec[k])
===============================================================================
