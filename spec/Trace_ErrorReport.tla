--------------------------- MODULE Trace_ErrorReport ---------------------------
(***************************************************************************)
(* C08 trace validation.  Each line is a grammar (the OPTIMIZED rules the   *)
(* back-ends execute, exported from the real optimizer: the property is    *)
(* about the attempts of the run that was made, and the optimizer removes  *)
(* and merges attempts, e.g. x | x ~ y => x) with recorded FAILING parses  *)
(* of the real parser: error                                               *)
(* position (bytes), expected and unexpected rule names, and whether the   *)
(* two lists were strictly increasing in the rule type's own order.  TLC   *)
(* evaluates the semantics with the attempt history and requires the       *)
(* report to be ErrorReport!Report of that history.                        *)
(***************************************************************************)
EXTENDS PegSemantics, ErrorReport, TLC, Json, IOUtils
VARIABLES k

Rec == ndJsonDeserialize(IOEnv.BATCH)
Fuel == 60
SetOf(s) == { s[i] : i \in 1..Len(s) }

CheckCase(rec, c, i) ==
  IF c.got.k # "fail" THEN TRUE
  ELSE LET r == ParseHO(rec.gopt, c.inp, rec.uni, rec.extras, Fuel, c.start) IN
       IF r.k # "fail" THEN PrintT(<<"SKIPPED", r.k, rec.id>>)      \* acceptance itself is C01's subject
       ELSE LET rep == Report(r.h)
                exp == [pos |-> IF rep.pos = 0 THEN 0 ELSE ByteOff(c.inp, rep.pos),
                        positives |-> rep.positives, negatives |-> rep.negatives]
            IN IF /\ c.got.pos = exp.pos
                  /\ SetOf(c.got.positives) = exp.positives
                  /\ SetOf(c.got.negatives) = exp.negatives
                  /\ c.got.sorted
               THEN TRUE
               ELSE PrintT(<<"REJECTED", "report", rec.id,
                             ToJson([start |-> c.start, inp |-> c.inp, backend |-> c.backend, expected |-> exp,
                                     got |-> c.got, n |-> i])>>)

CheckRec(rec) == \A i \in 1..Len(rec.cases) : CheckCase(rec, rec.cases[i], i)

Init == k = 1
Next == k <= Len(Rec) /\ k' = k + 1
Spec == Init /\ [][Next]_k
Checked == k <= Len(Rec) => CheckRec(Rec[k])
===============================================================================
