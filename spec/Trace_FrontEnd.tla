----------------------------- MODULE Trace_FrontEnd -----------------------------
(* C09 trace validation: recorded runs of the real front-end on damaged and arbitrary texts. *)
EXTENDS FrontEnd, TLC, Json, IOUtils
VARIABLES k
Rec == ndJsonDeserialize(IOEnv.BATCH)
CheckRec(rec) ==
  IF Accepted(rec) THEN TRUE
  ELSE PrintT(<<"REJECTED", "run", rec.id, ToJson([text |-> rec.text, stages |-> rec.stages, errors |-> rec.errors,
                                                   elapsed_ms |-> rec.elapsed_ms, msg |-> rec.msg, fault |-> rec.fault])>>)
Init == k = 1
Next == k <= Len(Rec) /\ k' = k + 1
Spec == Init /\ [][Next]_k
Checked == k <= Len(Rec) => CheckRec(Rec[k])
===============================================================================
