------------------------------- MODULE Trace_Json -------------------------------
(* C18 trace validation: strings parsed by the real pest_grammars JsonParser (valid documents of  *)
(* every shape and depth, single-edit near-misses, the repository's own JSON files); acceptance   *)
(* and token tree must be those of RFC 8259 (Json8259).                                           *)
EXTENDS Json8259, PegSemantics, TLC, Json, IOUtils
VARIABLES k

Rec == ndJsonDeserialize(IOEnv.BATCH)

\* long documents (thousands of pairs) are recorded with acceptance and the number of pairs only
RECURSIVE NPairs(_)
NPairs(q) == IF q = <<>> THEN 0 ELSE 1 + NPairs(q[1].c) + NPairs(Tail(q))

CheckRec(rec) ==
  LET rfc == JsonText(rec.inp) IN
  IF /\ rec.got.panic = ""
     /\ rec.got.ok = rfc.ok
     /\ (rfc.ok => IF "npairs" \in DOMAIN rec THEN rec.npairs = NPairs(rfc.t) ELSE rec.got.toks = ByteToks(rec.inp, rfc.t))
  THEN TRUE
  ELSE PrintT(<<"REJECTED", "json", rec.id, ToJson([inp |-> rec.inp, rfc_accepts |-> rfc.ok, got |-> rec.got])>>)

Init == k = 1
Next == k <= Len(Rec) /\ k' = k + 1
Spec == Init /\ [][Next]_k
Checked == k <= Len(Rec) => CheckRec(Rec[k])
===============================================================================
