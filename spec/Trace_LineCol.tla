----------------------------- MODULE Trace_LineCol -----------------------------
(***************************************************************************)
(* C10 trace validation.  Each line holds one text and what the real code  *)
(* answered at a set of boundary offsets and offset pairs: Position::new,  *)
(* line_col, line_of, Pair::line_col (tree from PairsBuilder and from a    *)
(* real parse), Error::new_from_pos / new_from_span (line_col, line(), the *)
(* rendering parsed back into number / text / marker column / gutter       *)
(* alignment), LineColLocation::from, Span::new, lines(), lines_span().    *)
(* Every answer must be the one LineCol.tla defines.                       *)
(***************************************************************************)
EXTENDS LineCol, TLC, Json, IOUtils
VARIABLES k

Rec == ndJsonDeserialize(IOEnv.BATCH)
SetOf(q) == { q[i] : i \in 1..Len(q) }
PosOf(s, off) == CHOOSE p \in 1..(Len(s) + 1) : ByteOff(s, p) = off

\* how a line may be displayed: line breaks removed, or made visible as U+240D / U+240A
Stripped(t) == SelectSeq(t, LAMBDA c : c \notin {10, 13})
Visible(t)  == [i \in 1..Len(t) |-> IF t[i] = 13 THEN 9229 ELSE IF t[i] = 10 THEN 9226 ELSE t[i]]
Shows(shown, t) == shown = Stripped(t) \/ shown = Visible(t)

PosOk(s, o) ==
  LET p == PosOf(s, o.off)  l == Line(s, p)  c == Col(s, p) IN
  /\ o.panic = ""
  /\ o.line = l /\ o.col = c
  /\ o.text = LineAt(s, p)
  /\ o.err_line = l /\ o.err_col = c
  /\ o.from_line = l /\ o.from_col = c
  /\ o.pair_builder = <<l, c>> /\ o.pair_parse = <<l, c>>
  /\ Shows(o.err_text, LineAt(s, p))
  /\ o.disp_ok /\ o.disp_line = l /\ o.disp_col = c /\ Shows(o.disp_text, LineAt(s, p))
  /\ o.disp_marker = c /\ o.disp_aligned

\* the span algebra (recorded for every span; sub-ranges only on short texts)
AlgebraOk(s, o) ==
  ("alg" \notin DOMAIN o) \/
  LET g == o.alg IN
  /\ g.start = o.a /\ g.end = o.b /\ g.split = <<o.a, o.b>> /\ g.pspan = <<o.a, o.b>>
  /\ g.str = SubSeq(s, PosOf(s, o.a), PosOf(s, o.b) - 1)
  /\ \A n \in 1..Len(g.gets) : g.gets[n].r = SubSpan(s, o.a, o.b, g.gets[n].i, g.gets[n].j)
  /\ \A n \in 1..Len(g.merges) : g.merges[n].r = Merged(o.a, o.b, g.merges[n].c, g.merges[n].d)

SpanObsOk(s, o) ==
  LET p == PosOf(s, o.a)  q == PosOf(s, o.b)
      L == LinesFrom(s, p, q)
      expLines == [i \in 1..Len(L) |-> <<ByteOff(s, L[i][1]), ByteOff(s, L[i][2])>>]
  IN
  /\ o.panic = ""
  /\ o.lines = expLines /\ o.strs_ok
  /\ o.sline = Line(s, p) /\ o.scol = Col(s, p)
  \* the end is reported "visually" when it sits right after a line break; otherwise exactly
  /\ (Col(s, q) # 1 => (o.eline = Line(s, q) /\ o.ecol = Col(s, q)))
  /\ Shows(o.err_text, LineAt(s, p))
  /\ o.disp_ok /\ o.disp_line = Line(s, p) /\ o.disp_col = Col(s, p) /\ Shows(o.disp_text, LineAt(s, p)) /\ o.disp_aligned
  \* marker under the reported (start) column: stated whenever the reported end column is not left of it (a span that
  \* ends on a later line in an earlier column is underlined from that column, a reading fixed before registration)
  /\ (o.ecol >= o.scol => o.disp_marker = Col(s, p))
  /\ AlgebraOk(s, o)

TextOk(obs) ==
  LET s == obs.s IN
  /\ SetOf(obs.position_some) = Boundaries(s)
  /\ obs.bad_spans_accepted = 0
  /\ \A i \in 1..Len(obs.pos) : PosOk(s, obs.pos[i])
  /\ \A i \in 1..Len(obs.spans) : SpanObsOk(s, obs.spans[i])

FirstBad(obs) ==
  LET s == obs.s
      bp == { i \in 1..Len(obs.pos) : ~PosOk(s, obs.pos[i]) }
      bs == { i \in 1..Len(obs.spans) : ~SpanObsOk(s, obs.spans[i]) }
  IN IF bp # {} THEN [what |-> "position", obs |-> obs.pos[CHOOSE i \in bp : TRUE],
                      line |-> Line(s, PosOf(s, obs.pos[CHOOSE i \in bp : TRUE].off)),
                      col |-> Col(s, PosOf(s, obs.pos[CHOOSE i \in bp : TRUE].off))]
     ELSE IF bs # {} THEN [what |-> "span", obs |-> obs.spans[CHOOSE i \in bs : TRUE]]
     ELSE [what |-> "boundaries", some |-> obs.position_some, bad_spans |-> obs.bad_spans_accepted]

CheckRec(rec) ==
  IF TextOk(rec.obs) THEN TRUE
  ELSE PrintT(<<"REJECTED", "text", rec.id, ToJson([s |-> rec.obs.s, first |-> FirstBad(rec.obs)])>>)

Init == k = 1
Next == k <= Len(Rec) /\ k' = k + 1
Spec == Init /\ [][Next]_k
Checked == k <= Len(Rec) => CheckRec(Rec[k])
===============================================================================
