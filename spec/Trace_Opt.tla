------------------------------ MODULE Trace_Opt ------------------------------
(***************************************************************************)
(* C05: every optimizer pass preserves the meaning of every grammar.       *)
(* Each line of the batch is one grammar together with the rule sets the   *)
(* REAL passes produced, one after the other (hook H3): stages[1] is the   *)
(* AST the reader returned, stages[i+1] the output of pass i applied to    *)
(* stages[i], `final` the output of the real optimize().  TLC evaluates    *)
(* the semantics on both sides of every pass for every start rule and      *)
(* EVERY input over the grammar's alphabet up to maxlen:                   *)
(*   Expr -> Expr passes:   EvalDoc(before) = EvalDoc(after)               *)
(*   conversion + restore:  EvalDoc(last Expr stage) = EvalOp(final)       *)
(*   whole pipeline:        EvalDoc(source) = EvalOp(final)                *)
(* EvalOp is the semantics with the stack effects the primitives really    *)
(* have on failure; RestoreOnErr must be placed so that the difference is  *)
(* unobservable.  The expected output of a pass is never compared: an      *)
(* optimizer that rewrites differently but soundly is accepted.            *)
(***************************************************************************)
EXTENDS PegSemantics, TLC, Json, IOUtils
VARIABLES k

Rec == ndJsonDeserialize(IOEnv.BATCH)
Fuel == 40

RECURSIVE Strings(_, _)
Strings(alpha, n) ==
  IF n = 0 THEN {<<>>}
  ELSE {<<>>} \cup { <<alpha[i]>> \o s : i \in 1..Len(alpha), s \in Strings(alpha, n - 1) }

Out(rec, g, inp, start, op) == Outcome(inp, Parse(g, inp, rec.uni, rec.extras, op, Fuel, start))

Comparable(o) == o.k \notin {"div", "fuel"}

Compare(rec, label, g1, op1, g2, op2) ==
  \A si \in 1..Len(rec.starts) : \A inp \in Strings(rec.alpha, rec.maxlen) :
    LET st == rec.starts[si]
        o1 == Out(rec, g1, inp, st, op1)
        o2 == Out(rec, g2, inp, st, op2)
    IN IF ~Comparable(o1) \/ ~Comparable(o2) THEN TRUE
       ELSE IF o1 = o2 THEN TRUE
       ELSE PrintT(<<"REJECTED", label, rec.id,
                     ToJson([start |-> st, inp |-> inp, before |-> o1, after |-> o2])>>)

CheckRec(rec) ==
  /\ \A i \in 1..(Len(rec.stages) - 1) :
        rec.stages[i + 1].changed =>
          Compare(rec, rec.stages[i + 1].pass, rec.stages[i].g, FALSE, rec.stages[i + 1].g, FALSE)
  /\ Compare(rec, "convert_restore", rec.stages[Len(rec.stages)].g, FALSE, rec.final, TRUE)
  /\ Compare(rec, "pipeline", rec.stages[1].g, FALSE, rec.final, TRUE)

Init == k = 1
Next == k <= Len(Rec) /\ k' = k + 1
Spec == Init /\ [][Next]_k
Checked == k <= Len(Rec) => CheckRec(Rec[k])
==============================================================================
