------------------------------ MODULE Trace_Peg ------------------------------
(***************************************************************************)
(* Validation of recorded parses against the semantics (impl -> spec).     *)
(* Each line of the batch file is one grammar - the AST the real reader    *)
(* returned, exported as JSON - with the observed outcome of real parses   *)
(* (start rule, input, result).  TLC evaluates PegSemantics on every case  *)
(* and compares.  One TLC state per grammar; every mismatch is printed as  *)
(*   <<"REJECTED", "case", <grammar id>, "<json>">>                        *)
(* and the run continues so that all discrepancies of a batch are seen.    *)
(* Cases whose evaluation diverges or exceeds the fuel are not compared    *)
(* (they are counted by the driver from the "SKIPPED" lines).              *)
(***************************************************************************)
EXTENDS PegSemantics, TLC, Json, IOUtils
VARIABLES k

Rec == ndJsonDeserialize(IOEnv.BATCH)
Fuel == 60

Has2(r, f) == f \in DOMAIN r

\* does the recorded outcome agree with the expected one?
Agree(exp, got) ==
  CASE exp.k = "ok"    -> /\ got.k = "ok"
                          /\ got.toks = exp.toks
                          /\ (Has2(got, "end") => got.end = exp.end)
                          /\ (Has2(got, "stk") => got.stk = exp.stk)
    [] exp.k = "fail"  -> got.k = "fail"
    [] exp.k = "abort" -> got.k = "panic" /\ got.empty_stack
    [] OTHER           -> TRUE

CheckCase(rec, c, i) ==
  LET r   == Parse(rec.g, c.inp, rec.uni, rec.extras, rec.op, Fuel, c.start)
      exp == Outcome(c.inp, r)
  IN IF exp.k \in {"div", "fuel"}
     THEN PrintT(<<"SKIPPED", exp.k, rec.id>>)
     ELSE IF Agree(exp, c.got) THEN TRUE
     ELSE PrintT(<<"REJECTED", "case", rec.id,
                   ToJson([start |-> c.start, inp |-> c.inp, expected |-> exp, got |-> c.got, n |-> i])>>)

CheckRec(rec) == \A i \in 1..Len(rec.cases) : CheckCase(rec, rec.cases[i], i)

Init == k = 1
Next == k <= Len(Rec) /\ k' = k + 1
Spec == Init /\ [][Next]_k

Checked == k <= Len(Rec) => CheckRec(Rec[k])
==============================================================================
