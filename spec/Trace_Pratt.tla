------------------------------ MODULE Trace_Pratt ------------------------------
(* C13 trace validation: trees built by the real PrattParser, ConstPrattParser and (on its     *)
(* sub-domain) PrecClimber for random tables and sequences must be the ShuntingYard tree.      *)
EXTENDS ShuntingYard, TLC, Json, IOUtils
VARIABLES k

Rec == ndJsonDeserialize(IOEnv.BATCH)

CheckRec(rec) ==
  LET exp == ShuntingYard(rec.table, rec.toks) IN
  IF /\ WellFormed(rec.table, rec.toks)
     /\ rec.pratt = exp /\ rec.const_pratt = exp
     /\ (rec.climber_applies => rec.climber = exp)
     /\ OncePreservingOrder(exp, Len(rec.toks))
  THEN TRUE
  ELSE PrintT(<<"REJECTED", "tree", rec.id, ToJson([table |-> rec.table, toks |-> rec.toks, expected |-> exp,
                                                    pratt |-> rec.pratt, const_pratt |-> rec.const_pratt, climber |-> rec.climber])>>)

Init == k = 1
Next == k <= Len(Rec) /\ k' = k + 1
Spec == Init /\ [][Next]_k
Checked == k <= Len(Rec) => CheckRec(Rec[k])
===============================================================================
