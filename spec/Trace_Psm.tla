-------------------------------- MODULE Trace_Psm --------------------------------
(* C03 trace validation: random programs of ParserState calls (depth <= 8) run with real closures on a *)
(* real ParserState; the recorded observable outcome must be the one the contract machine computes.     *)
EXTENDS ParserStateMachine, TLC, Json, IOUtils
VARIABLES k
Rec == ndJsonDeserialize(IOEnv.BATCH)

Same(exp, got) ==
  IF exp.k = "div" THEN TRUE
  ELSE IF exp.k = "panic" THEN got.k = "panic"
  ELSE /\ got.k = exp.k /\ got.pos = exp.pos /\ got.q = exp.q /\ got.stk = exp.stk
       /\ got.look = exp.look /\ got.atom = exp.atom /\ got.view_ok

CheckRec(rec) ==
  \A i \in 1..Len(rec.cases) :
    LET cs == rec.cases[i]  exp == Observable(cs.inp, Run(cs.inp, rec.prog, St0)) IN
    IF Same(exp, cs.got) THEN TRUE
    ELSE PrintT(<<"REJECTED", "program", rec.id, ToJson([prog |-> rec.prog, inp |-> cs.inp, expected |-> exp, got |-> cs.got])>>)

Init == k = 1
Next == k <= Len(Rec) /\ k' = k + 1
Spec == Init /\ [][Next]_k
Checked == k <= Len(Rec) => CheckRec(Rec[k])
===============================================================================
