------------------------------ MODULE Trace_Reader ------------------------------
(* C07, impl -> spec: re-spellings of the repository's own grammar files.  The token sequence of    *)
(* each file (taken from the real meta-parser) is joined again with different legal gaps (blanks,   *)
(* line breaks, CRLF, tabs, block and line comments); spacing and comments are not part of the      *)
(* abstract grammar (MetaSyntax: Text(rules, st) denotes `rules` for every style), so the reader    *)
(* must return the same rules.                                                                      *)
EXTENDS Naturals, Sequences, TLC, Json, IOUtils
VARIABLES k
Rec == ndJsonDeserialize(IOEnv.BATCH)
CheckRec(rec) ==
  IF rec.same THEN TRUE
  ELSE PrintT(<<"REJECTED", "respelling", rec.id, ToJson([file |-> rec.file, error |-> rec.error, text |-> rec.text])>>)
Init == k = 1
Next == k <= Len(Rec) /\ k' = k + 1
Spec == Init /\ [][Next]_k
Checked == k <= Len(Rec) => CheckRec(Rec[k])
===============================================================================
