------------------------------ MODULE Trace_Stack ------------------------------
(***************************************************************************)
(* Trace validation for C11 (impl -> spec).  The harness drives a real     *)
(* pest::Stack<String> with long random histories and logs one event per   *)
(* public call, taken at the call's return: operation, argument, returned  *)
(* element, whether the call panicked, and the full contents afterwards    *)
(* (read through the public Index<Range> API).  Each event must be the     *)
(* StackNaive transition for that operation.  "reset" starts a new stack.  *)
(***************************************************************************)
EXTENDS StackNaive, TLC, Json, IOUtils
VARIABLES l, n

Rec == ndJsonDeserialize(IOEnv.TRACE)

Init == l = 1 /\ n = NInit

Step == /\ l <= Len(Rec)
        /\ LET e == Rec[l] IN
             IF e.ev = "reset" THEN n' = NInit
             ELSE LET op == [o |-> e.o, v |-> e.v] IN
                  /\ e.o \in OpNames
                  /\ ~e.panic
                  /\ e.ret = NRet(n, op)
                  /\ n' = NApply(n, op)
                  /\ e.cur = n'.cur
                  /\ e.len = Len(n'.cur)
        /\ l' = l + 1

Spec == Init /\ [][Step]_<<l, n>>

\* one state per consumed event plus the initial state
Accepted ==
  LET d == TLCGet("stats").diameter IN
  IF d - 1 = Len(Rec) THEN TRUE
  ELSE /\ PrintT(<<"TRACE-REJECTED", "event", d, ToJson(Rec[d])>>)
       /\ FALSE
===============================================================================
