SPECIFICATION Spec
INVARIANT Checked
CHECK_DEADLOCK FALSE
