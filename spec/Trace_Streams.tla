------------------------------ MODULE Trace_Streams ------------------------------
(***************************************************************************)
(* C04, first sentence, on grammar-driven parses: the token queue that a   *)
(* successful parse of the real VM leaves behind (read through hook H1:    *)
(* kind, byte position, rule) is a well-formed stream - balanced, every    *)
(* End closing the Start of its own rule, positions on UTF-8 boundaries    *)
(* and non-decreasing.  The grammars are random ones with all five rule    *)
(* modifiers, WHITESPACE / COMMENT of every modifier, stack operations and *)
(* multi-byte inputs: the queue is written by rule() under every mixture   *)
(* of atomicity and look-ahead, and truncated by every failing sequence.   *)
(***************************************************************************)
EXTENDS LineCol, TokenTree, TLC, Json, IOUtils
VARIABLES k

Rec == ndJsonDeserialize(IOEnv.BATCH)

CheckCase(rec, c, i) ==
  IF WellFormedStream(c.q, Boundaries(c.inp)) THEN TRUE
  ELSE PrintT(<<"REJECTED", "stream", rec.id, ToJson([start |-> c.start, inp |-> c.inp, q |-> c.q, n |-> i])>>)

CheckRec(rec) == \A i \in 1..Len(rec.cases) : CheckCase(rec, rec.cases[i], i)

Init == k = 1
Next == k <= Len(Rec) /\ k' = k + 1
Spec == Init /\ [][Next]_k
Checked == k <= Len(Rec) => CheckRec(Rec[k])
===============================================================================
