---------------------------- MODULE Trace_TokenTree ----------------------------
(***************************************************************************)
(* C04 trace validation.  Each line: an input, a forest, how the real tree *)
(* was obtained (PairsBuilder or a real parse), and everything the real    *)
(* Pairs / Pair / FlatPairs / Tokens answered: static views at the top and *)
(* at every pair (in pre-order), and iterator runs (next / next_back       *)
(* interleavings with len, size_hint and peek observed after every step).  *)
(* Every answer must be the one the forest determines.                     *)
(***************************************************************************)
EXTENDS TokenTree, LineCol, TLC, Json, IOUtils
VARIABLES k

Rec == ndJsonDeserialize(IOEnv.BATCH)

PosOf(s, off) == CHOOSE p \in 1..(Len(s) + 1) : ByteOff(s, p) = off
Slice(inp, a, b) == SubSeq(inp, PosOf(inp, a), PosOf(inp, b) - 1)
RECURSIVE ConcatStrs(_, _)
ConcatStrs(inp, f) == IF f = <<>> THEN <<>> ELSE Slice(inp, f[1].s, f[1].e) \o ConcatStrs(inp, Tail(f))
RECURSIVE TaggedWith(_, _)
TaggedWith(fl, t) == IF fl = <<>> THEN <<>>
                     ELSE (IF fl[1].tag = t THEN <<Item(fl[1])>> ELSE <<>>) \o TaggedWith(Tail(fl), t)

NodeOk(inp, n, o) ==
  /\ o.panic = ""
  /\ o.item = Item(n)
  /\ o.str = <<n.s, n.e>> /\ o.span = <<n.s, n.e>> /\ o.input_ok
  /\ o.inner = Items(n.c)
  /\ o.tokens = Toks(<<n>>)
  /\ o.single.str = <<n.s, n.e>> /\ o.single.items = <<Item(n)>> /\ o.single.back = <<Item(n)>>
  /\ o.single.len = 1 /\ o.single.tokens = Toks(<<n>>)
  /\ LET p == PosOf(inp, n.s) IN o.line_col = <<Line(inp, p), Col(inp, p)>> /\ o.span_line_col = o.line_col
  /\ o.display_plain_ok
  /\ o.display = Plain(<<n>>)
  /\ o.debug = Tagged(<<n>>)

\* a clone of the iterator is the same iterator (same length); stepping a clone past the end - nth / nth_back with the
\* number of items left - yields nothing and leaves it empty, while nth / nth_back of the last item yields something
SideOk(st, n) == /\ st.side.clen = n /\ st.side.chint = <<n, n>>
                 /\ st.side.over = <<0, 0>> /\ st.side.over_none

RunOk(f, run) ==
  LET L == CASE run.kind = "pairs" -> Items(f)
             [] run.kind = "flat"  -> Items(Flat(f))
             [] OTHER              -> Toks(f)
      ops == run.ops
      exp == Deque(L, 1, Len(L), ops)
  IN /\ run.panic = ""
     /\ Len(run.steps) = Len(ops) + 1
     /\ run.steps[1].len = Len(L) /\ run.steps[1].hint = <<Len(L), Len(L)>>
     /\ SideOk(run.steps[1], Len(L))
     /\ (run.kind = "pairs" => run.steps[1].peek = (IF L = <<>> THEN <<>> ELSE <<L[1]>>))
     /\ \A i \in 1..Len(ops) :
          LET st == run.steps[i + 1] IN
          /\ st.ret = exp[i].ret
          /\ st.len = exp[i].len /\ st.hint = <<exp[i].len, exp[i].len>>
          /\ SideOk(st, exp[i].len)
          /\ (run.kind = "pairs" => st.peek = exp[i].front)

TopOk(inp, f, o) ==
  /\ o.items = Items(f) /\ o.len = Len(f) /\ o.is_empty = (f = <<>>)
  /\ o.str = (IF f = <<>> THEN <<0, 0>> ELSE <<f[1].s, f[Len(f)].e>>)
  /\ o.concat = ConcatStrs(inp, f)
  /\ o.flatten = Items(Flat(f))
  /\ o.tokens = Toks(f)
  /\ o.tagged_t = TaggedWith(Flat(f), "t")
  /\ o.first_tagged_t = (IF TaggedWith(Flat(f), "t") = <<>> THEN <<>> ELSE <<TaggedWith(Flat(f), "t")[1]>>)
  /\ o.display_plain_ok
  /\ o.display = Plain(f) /\ o.debug = Tagged(f) /\ o.json = Plain(f)

RecOk(rec) ==
  LET fl == Flat(rec.forest) IN
  /\ rec.panic = ""
  /\ WellFormedStream(rec.top.tokens, Boundaries(rec.inp))        \* first sentence of C04, on the real stream
  /\ TopOk(rec.inp, rec.forest, rec.top)
  /\ Len(rec.nodes) = Len(fl)
  /\ \A i \in 1..Len(fl) : NodeOk(rec.inp, fl[i], rec.nodes[i])
  /\ \A i \in 1..Len(rec.runs) : RunOk(rec.forest, rec.runs[i])

\* what went wrong first (for the replay file)
Diagnose(rec) ==
  LET fl == Flat(rec.forest) IN
  IF rec.panic # "" THEN [what |-> "panic", msg |-> rec.panic]
  ELSE IF ~TopOk(rec.inp, rec.forest, rec.top) THEN [what |-> "top-level views", got |-> rec.top]
  ELSE IF Len(rec.nodes) # Len(fl) THEN [what |-> "flatten length", got |-> Len(rec.nodes)]
  ELSE IF \E i \in 1..Len(fl) : ~NodeOk(rec.inp, fl[i], rec.nodes[i])
       THEN LET i == CHOOSE j \in 1..Len(fl) : ~NodeOk(rec.inp, fl[j], rec.nodes[j]) IN
            [what |-> "views of one pair", node |-> Item(fl[i]), got |-> rec.nodes[i]]
  ELSE IF \E i \in 1..Len(rec.runs) : ~RunOk(rec.forest, rec.runs[i])
       THEN [what |-> "iterator run", got |-> rec.runs[CHOOSE j \in 1..Len(rec.runs) : ~RunOk(rec.forest, rec.runs[j])]]
  ELSE [what |-> "token stream not well formed", got |-> rec.top.tokens]

CheckRec(rec) ==
  IF RecOk(rec) THEN TRUE
  ELSE PrintT(<<"REJECTED", "tree", rec.id, ToJson([inp |-> rec.inp, forest |-> rec.forest, src |-> rec.src, first |-> Diagnose(rec)])>>)

Init == k = 1
Next == k <= Len(Rec) /\ k' = k + 1
Spec == Init /\ [][Next]_k
Checked == k <= Len(Rec) => CheckRec(Rec[k])
===============================================================================
