SPECIFICATION Spec
INVARIANTS Checked Coverage
CHECK_DEADLOCK FALSE
