------------------------------ MODULE Trace_Unicode ------------------------------
(* C16: the run table and the name lists recorded from the real code against Unicode.tla. *)
EXTENDS Unicode, TLC, Json, IOUtils
VARIABLES k

Rec == ndJsonDeserialize(IOEnv.BATCH)
Lists == ndJsonDeserialize(IOEnv.NAMES)[1]
SetOf(x) == { x[i] : i \in 1..Len(x) }
Scripts == SetOf(Lists.script)

RunIdx == { i \in 1..Len(Rec) : Rec[i].ev = "run" }
RunsSeq == LET n == Cardinality(RunIdx) IN [j \in 1..n |-> Rec[j]]     \* runs are written first, in order

CheckEvent(e, i) ==
  CASE e.ev = "run" ->
         IF RunOk(SetOf(e.m), Scripts) THEN TRUE
         ELSE PrintT(<<"REJECTED", "run", i, ToJson([lo |-> e.lo, hi |-> e.hi, members |-> e.m,
                        categories |-> SetOf(e.m) \cap TwoLetter, scripts |-> SetOf(e.m) \cap Scripts])>>)
    [] e.ev = "disagree" -> PrintT(<<"REJECTED", "paths", i, ToJson(e)>>)
    [] e.ev = "names" ->
         IF NamesOk(e, Lists.advertised, Lists.binary, Lists.category, Lists.script) THEN TRUE
         ELSE PrintT(<<"REJECTED", "names", i, ToJson([unresolved |-> e.resolves, rejected_by_validator |-> e.rejected_by_validator,
                                                       vm_grammar_ok |-> e.vm_grammar_ok])>>)
    [] OTHER -> TRUE

Init == k = 1
Next == k <= Len(Rec) /\ k' = k + 1
Spec == Init /\ [][Next]_k
Checked == k <= Len(Rec) => CheckEvent(Rec[k], k)
\* checked once, at the first state
Coverage == k = 1 => (Covers(RunsSeq) \/ PrintT(<<"REJECTED", "coverage", 0, ToJson([runs |-> Cardinality(RunIdx)])>>))
===============================================================================
