---------------------------- MODULE Trace_Validator ----------------------------
(***************************************************************************)
(* C06, impl -> spec.  Each line: a stack-free grammar (the AST the real   *)
(* reader returned) and the real validator's verdict.  TLC requires        *)
(*   accepted  => no input up to maxlen over alpha makes any rule diverge, *)
(*   rejected  => the grammar is not Guarded.                              *)
(***************************************************************************)
EXTENDS Validator, TLC, Json, IOUtils
VARIABLES k

Rec == ndJsonDeserialize(IOEnv.BATCH)
SetOf(seq) == { seq[i] : i \in 1..Len(seq) }

CheckRec(rec) ==
  IF UsesStack(rec.g) THEN TRUE
  ELSE IF rec.accepted
  THEN LET w == DivWitness(rec.g, SetOf(rec.alpha), rec.maxlen, 30) IN
       IF w = <<>> THEN TRUE
       ELSE PrintT(<<"REJECTED", "soundness", rec.id, ToJson([start |-> w[1], inp |-> w[2]])>>)
  ELSE IF Guarded(rec.g)
       THEN PrintT(<<"REJECTED", "completeness", rec.id, ToJson([guarded |-> TRUE])>>)
       ELSE TRUE

Init == k = 1
Next == k <= Len(Rec) /\ k' = k + 1
Spec == Init /\ [][Next]_k
Checked == k <= Len(Rec) => CheckRec(Rec[k])
==============================================================================
