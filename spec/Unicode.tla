-------------------------------- MODULE Unicode --------------------------------
(***************************************************************************)
(* Structure the Unicode property rules must have (property C16), over a   *)
(* run-length encoded membership table: a sequence of runs [lo, hi, m]     *)
(* where m is the set of property names matching every scalar value in     *)
(* lo..hi.  This is a data table, not a protocol: the specification states *)
(* its shape, TLC checks it; the enumeration of the 1 112 064 scalar       *)
(* values and the comparison of the access paths is done by the harness.   *)
(***************************************************************************)
EXTENDS Naturals, Sequences, FiniteSets

TwoLetter == { "UPPERCASE_LETTER", "LOWERCASE_LETTER", "TITLECASE_LETTER", "MODIFIER_LETTER", "OTHER_LETTER",
               "NONSPACING_MARK", "SPACING_MARK", "ENCLOSING_MARK",
               "DECIMAL_NUMBER", "LETTER_NUMBER", "OTHER_NUMBER",
               "CONNECTOR_PUNCTUATION", "DASH_PUNCTUATION", "OPEN_PUNCTUATION", "CLOSE_PUNCTUATION",
               "INITIAL_PUNCTUATION", "FINAL_PUNCTUATION", "OTHER_PUNCTUATION",
               "MATH_SYMBOL", "CURRENCY_SYMBOL", "MODIFIER_SYMBOL", "OTHER_SYMBOL",
               "SPACE_SEPARATOR", "LINE_SEPARATOR", "PARAGRAPH_SEPARATOR",
               "CONTROL", "FORMAT", "SURROGATE", "PRIVATE_USE", "UNASSIGNED" }

\* (a set of pairs, not a record: OTHER is a TLA+ keyword)
GroupDefs ==
  { <<"LETTER",       {"UPPERCASE_LETTER", "LOWERCASE_LETTER", "TITLECASE_LETTER", "MODIFIER_LETTER", "OTHER_LETTER"}>>,
    <<"CASED_LETTER", {"UPPERCASE_LETTER", "LOWERCASE_LETTER", "TITLECASE_LETTER"}>>,
    <<"MARK",         {"NONSPACING_MARK", "SPACING_MARK", "ENCLOSING_MARK"}>>,
    <<"NUMBER",       {"DECIMAL_NUMBER", "LETTER_NUMBER", "OTHER_NUMBER"}>>,
    <<"PUNCTUATION",  {"CONNECTOR_PUNCTUATION", "DASH_PUNCTUATION", "OPEN_PUNCTUATION", "CLOSE_PUNCTUATION",
                       "INITIAL_PUNCTUATION", "FINAL_PUNCTUATION", "OTHER_PUNCTUATION"}>>,
    <<"SYMBOL",       {"MATH_SYMBOL", "CURRENCY_SYMBOL", "MODIFIER_SYMBOL", "OTHER_SYMBOL"}>>,
    <<"SEPARATOR",    {"SPACE_SEPARATOR", "LINE_SEPARATOR", "PARAGRAPH_SEPARATOR"}>>,
    <<"OTHER",        {"CONTROL", "FORMAT", "SURROGATE", "PRIVATE_USE", "UNASSIGNED"}>> }
GroupNames == { g[1] : g \in GroupDefs }

\* one run
ExactlyOneCategory(m) == Cardinality(m \cap TwoLetter) = 1
GroupIsUnion(m) == \A g \in GroupDefs : (g[1] \in m) <=> (m \cap g[2] # {})
ScriptsDisjoint(m, scripts) == Cardinality(m \cap scripts) <= 1
RunOk(m, scripts) == ExactlyOneCategory(m) /\ GroupIsUnion(m) /\ ScriptsDisjoint(m, scripts)

\* the runs cover exactly the scalar values: 0..D7FF and E000..10FFFF, contiguously
Covers(runs) ==
  /\ runs # <<>>
  /\ runs[1].lo = 0 /\ runs[Len(runs)].hi = 1114111
  /\ \A i \in 1..Len(runs) : runs[i].lo <= runs[i].hi
  /\ \A i \in 1..(Len(runs) - 1) :
        \/ runs[i + 1].lo = runs[i].hi + 1
        \/ (runs[i].hi = 55295 /\ runs[i + 1].lo = 57344)
  /\ \A i \in 1..Len(runs) : ~(runs[i].lo <= 55296 /\ runs[i].hi >= 55296)

\* the three published name lists and the function list agree; nothing is left unresolved
NamesOk(nm, advertised, binary, category, script) ==
  LET S(x) == { x[i] : i \in 1..Len(x) } IN
  /\ S(advertised) = S(binary) \cup S(category) \cup S(script)
  /\ S(nm.functions) = S(advertised)
  /\ nm.resolves = <<>> /\ nm.rejected_by_validator = <<>> /\ nm.vm_grammar_ok
  /\ TwoLetter \subseteq S(category) /\ GroupNames \subseteq S(category)
===============================================================================
