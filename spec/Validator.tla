------------------------------- MODULE Validator -------------------------------
(***************************************************************************)
(* Property-level definitions for C06.                                     *)
(*                                                                         *)
(* Diverges(G, ...): parsing some input from some rule does not terminate  *)
(*   under the documented semantics (PegSemantics reports "div": an active *)
(*   (rule, position, stack, mode) combination is re-entered, or a         *)
(*   repetition iterates without consuming).  Exact for stack-free         *)
(*   grammars, for the inputs examined.                                    *)
(*                                                                         *)
(* Guarded(G): the sufficient condition for acceptance that the property   *)
(*   names: every repetition body (including WHITESPACE and COMMENT, which *)
(*   are repeated implicitly), every non-final choice alternative and      *)
(*   every path from a rule back to itself begins by matching at least one *)
(*   character through a non-empty literal, a range or a single-character  *)
(*   built-in.  Purely syntactic.                                          *)
(***************************************************************************)
EXTENDS PegSemantics, FiniteSets

NonCharBuiltins == {"SOI", "EOI"} \cup StackBuiltins

\* e, whenever it matches, first consumes a character via a literal / range / char built-in
RECURSIVE StartsWithChar(_, _, _)
StartsWithChar(G, e, seen) ==
  CASE e.t \in {"str", "ins"} -> e.s # <<>>
    [] e.t = "range"          -> TRUE
    [] e.t = "id"             -> IF e.n \in DOMAIN G
                                 THEN e.n \notin seen /\ StartsWithChar(G, G[e.n].e, seen \cup {e.n})
                                 ELSE e.n \notin NonCharBuiltins
    [] e.t = "seq"            -> StartsWithChar(G, e.a, seen)
    [] e.t = "alt"            -> StartsWithChar(G, e.a, seen) /\ StartsWithChar(G, e.b, seen)
    [] e.t \in {"rep1", "push", "tag"} -> StartsWithChar(G, e.a, seen)
    [] e.t \in {"exact", "min"} -> e.n >= 1 /\ StartsWithChar(G, e.a, seen)
    [] e.t = "minmax"         -> e.m >= 1 /\ StartsWithChar(G, e.a, seen)
    [] OTHER                  -> FALSE     \* opt rep max not and peek pushlit ...

\* rules that may be entered at the position where e starts
RECURSIVE LeftReach(_, _)
LeftReach(G, e) ==
  CASE e.t = "id"  -> IF e.n \in DOMAIN G THEN {e.n} ELSE {}
    [] e.t = "seq" -> LeftReach(G, e.a) \cup (IF StartsWithChar(G, e.a, {}) THEN {} ELSE LeftReach(G, e.b))
    [] e.t = "alt" -> LeftReach(G, e.a) \cup LeftReach(G, e.b)
    [] e.t \in {"opt", "rep", "rep1", "not", "and", "push", "tag", "exact", "min", "max", "minmax"} -> LeftReach(G, e.a)
    [] OTHER -> {}

RECURSIVE ReachFrom(_, _, _)
ReachFrom(G, frontier, seen) ==
  LET next == UNION { LeftReach(G, G[n].e) : n \in frontier } \ seen
  IN IF next = {} THEN seen ELSE ReachFrom(G, next, seen \cup next)

NoLeftCycle(G) == \A n \in DOMAIN G : n \notin ReachFrom(G, LeftReach(G, G[n].e), LeftReach(G, G[n].e))

\* all sub-expressions
RECURSIVE Subs(_)
Subs(e) ==
  {e} \cup
  CASE e.t \in {"seq", "alt"} -> Subs(e.a) \cup Subs(e.b)
    [] e.t \in {"opt", "rep", "rep1", "not", "and", "push", "tag", "exact", "min", "max", "minmax"} -> Subs(e.a)
    [] OTHER -> {}

\* the non-final alternatives of a choice chain, however it is nested
RECURSIVE Alts(_)
Alts(e) == IF e.t = "alt" THEN Alts(e.a) \o Alts(e.b) ELSE <<e>>

Guarded(G) ==
  /\ \A n \in DOMAIN G : \A e \in Subs(G[n].e) :
        /\ e.t \in {"rep", "rep1", "min"} => StartsWithChar(G, e.a, {})
        /\ e.t = "alt" => \A i \in 1..(Len(Alts(e)) - 1) : StartsWithChar(G, Alts(e)[i], {})
  /\ \A n \in DOMAIN G \cap {"WHITESPACE", "COMMENT"} : StartsWithChar(G, G[n].e, {})
  /\ NoLeftCycle(G)

\* does the grammar use the stack built-ins? (C06 only speaks about grammars that do not)
UsesStack(G) ==
  \E n \in DOMAIN G : \E e \in Subs(G[n].e) :
     e.t \in {"push", "pushlit", "peek"} \/ (e.t = "id" /\ e.n \in StackBuiltins)

RECURSIVE Strs(_, _)
Strs(alpha, n) ==
  IF n = 0 THEN {<<>>} ELSE {<<>>} \cup { <<c>> \o s : c \in alpha, s \in Strs(alpha, n - 1) }

\* ---- one way to diverge that the validator of pest does not look for (known finding): a skip rule (WHITESPACE / COMMENT)
\* that refers - directly or through other rules - to a NON-ATOMIC (`!`) rule.  The skip rule's own body runs atomically,
\* but the `!` rule switches implicit skipping back on, and the sequences / repetitions inside it call the skip rule
\* again at the same position.  RefReach: all rules referred to from e, transitively.
RECURSIVE Refs(_)
Refs(e) == CASE e.t = "id" -> {e.n}
             [] e.t \in {"seq", "alt"} -> Refs(e.a) \cup Refs(e.b)
             [] e.t \in {"opt", "rep", "rep1", "not", "and", "push", "tag", "exact", "min", "max", "minmax"} -> Refs(e.a)
             [] OTHER -> {}
RECURSIVE RefClosure(_, _)
RefClosure(G, S) == LET N == S \cup UNION { Refs(G[n].e) \cap DOMAIN G : n \in S } IN IF N = S THEN S ELSE RefClosure(G, N)
SkipRules(G) == DOMAIN G \cap {"WHITESPACE", "COMMENT"}
NonAtomicUnderSkip(G) == { n \in RefClosure(G, SkipRules(G)) \ SkipRules(G) : G[n].ty = "!" }
\* the same grammar with those rules made ordinary rules (which inherit the atomic mode of the skip rule)
Tamed(G) == [n \in DOMAIN G |-> IF n \in NonAtomicUnderSkip(G) THEN [G[n] EXCEPT !.ty = ""] ELSE G[n]]
\* the divergence on witness w is of that kind: it disappears when the `!` rules under the skip rules are tamed
SkipReentryOnly(G, w, fuel) ==
  /\ NonAtomicUnderSkip(G) # {}
  /\ Parse(Tamed(G), w[2], <<>>, FALSE, FALSE, fuel, w[1]).k # "div"

\* a witness <<start, input>> of divergence, or <<>> if none among the inputs examined
DivWitness(G, alpha, maxlen, fuel) ==
  LET W == { w \in (DOMAIN G) \X Strs(alpha, maxlen) :
               Parse(G, w[2], <<>>, FALSE, FALSE, fuel, w[1]).k = "div" }
  IN IF W = {} THEN <<>> ELSE CHOOSE w \in W : \A v \in W : Len(w[2]) <= Len(v[2])
===============================================================================
